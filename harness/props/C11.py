"""C11 -- scaling transforms change optimizer coordinates only, not user-domain behaviour.

Correspondence: every case is run twice on the real code -- without transforms and with a VariableScaler
(positive scales and/or offsets) and diagonal positive objective / non-linear constraint scalers -- with
the same injected samples (a sampler plug-in registered through PluginManager.add_plugin) and the same
user-domain evaluator.  Recorded are the validated configurations of both runs, every variable vector the
evaluator received, the user-domain results (and for the transformed run also the optimizer-domain ones),
and the images / round trips / constraint differences of random user-domain points.  Inside Coq the two
runs are compared with each other and with Model/Transforms.v (tolerance for reals, presence and infinities
exactly).  Levels: EnsembleEvaluator.calculate, evaluator step, optimizer step and BasicOptimizer (scripted optimizer
plug-in); every run issues a sequence of evaluator calls (single vectors, 2-D batches, gradient-only requests after
a function request, combined requests).
"""
from __future__ import annotations

import math
from fractions import Fraction

import coqio as cq

ID = "C11"
THEOREM_FILE = "Props/C11.v"
CHK_MODULE = "Check.Chk_C11"
CASE_TYPE = "Chk_C11.case"
CHECK_FN = "Chk_C11.check_case"
HEADER = "From Ropt Require Import Model.ConstraintInfo Model.Transforms Check.Chk_C13."
SHARD_SIZE = 60
PARALLEL = True
EXHAUSTIVE = {"quick": False, "thorough": False}
INF = math.inf
KNOWN_ID = "C11:explicit-step-variables"

RULE = ("generated: paired runs (without / with transforms) of the real code on random user-domain problems: V <= 5 variables, "
        "R <= 3 realizations, P <= 3 perturbations, K <= 2 objectives, 0-2 non-linear constraints, 0-3 linear constraint rows of "
        "all bound kinds, variable bounds of all kinds, absolute and relative perturbations mixed per variable (relative also on "
        "equality bounds), boundary types NONE / TRUNCATE_BOTH / MIRROR_BOTH with injected samples large enough to cross the bounds "
        "(several reflections), positive dyadic and non-dyadic (3, 1.5, 0.75, full-precision) scales, offsets; the variable "
        "transform (scales+offsets / scales / offsets / VariableScaler(None, None) / none; one scale for all variables given as a "
        "1-element array) and the function transforms (none / objective scaler / constraint scaler / both) are chosen "
        "independently; uniform settings written as scalars in the configuration; the scaler object validates another "
        "configuration with other linear constraints (three other rows, or the same rows scaled differently) first (30 %); "
        "every case also runs an evaluator step whose evaluation fails (no function values) without and with the "
        "transforms and compares the constraint information of that result; evaluator and optimizer steps carry a 'last' and a "
        "'best' tracker without tolerance (BasicOptimizer its own 'best' tracker): the retained result must be the user-domain "
        "object of the delivered results, for 'last' the last function result (also checked inside Coq against the tracker model, "
        "Chk_C11.trk_ok), equal with and without transforms. Levels: EnsembleEvaluator.calculate, evaluator step, optimizer "
        "step and BasicOptimizer (configuration dict, or EnOptConfig validated with the transforms) driven by a scripted optimizer "
        "plug-in. Every run issues a sequence of evaluator calls: function+gradient in one call or function then gradient-only "
        "(cached function) at the start vector, then further single function requests (1-D or 1-row 2-D), 2-D batches of 2-3 "
        "points, function then gradient-only and combined requests at other points; 4 random user-domain points per case for "
        "the feasibility / round-trip clauses; a few step-level cases pass an explicit variables= argument (region of the known "
        "finding). Non-trivial = some transform is not the identity; distinct = distinct inputs.")
ASSUMPTIONS = [
    "scales are positive, offsets arbitrary; linear constraint rows are non-zero (property quantifier)",
    "objective / non-linear constraint transforms are the diagonal positive scalers users write (tests/test_optimizer.py); the base classes are abstract",
    "the user's evaluator is a function of the user-domain variables it receives (here: affine + quadratic with dyadic coefficients); apart from the dedicated failing-evaluation probe (all realizations NaN, no function values) no evaluation fails in the paired runs",
    "lower bounds are never +inf and upper bounds never -inf in perturbation cases; absent scales/offsets are represented as 1/0 (exactly neutral also in floating point)",
    "function estimators are positively homogeneous (mean and stddev are); the paired runs use the default mean estimator without realization filters",
    "weighted objective, gradients and the choice a tracker makes between results (judged in the optimizer domain by design) are not compared between the two runs",
]
TRUSTED = [
    "the injected sampler plug-in, the scripted optimizer plug-in and the recording evaluator of the harness",
    "VariableScaler._equation_scaling (private attribute) is read as an observation and compared with the model's equation scaling",
    "BasicOptimizer._optimizer_context (private attribute) is used to register the two plug-ins and a raw FINISHED_EVALUATION observer",
]

SC_DY = [0.25, 0.5, 2.0, 4.0, 8.0, 1.0]
SC_ND = [3.0, 1.5, 0.75, 0.1, 1.7, 6.0]


# ---- generators -----------------------------------------------------------------
def _dy(rng, lo, hi, den=8):
    return rng.randint(lo * den, hi * den) / den


def _kind_bounds(rng, k, lo=-2, hi=1):
    a = _dy(rng, lo, hi)
    w = rng.choice([0.25, 0.5, 1.0, 2.0, 3.0])
    return {"nb": (-INF, a + w), "free": (-INF, INF), "ab": (a, a + w), "eq": (a, a), "ap": (a, INF)}[k]


def _point(rng, V):
    return [_dy(rng, -2, 2) for _ in range(V)]


def _gen_ops(rng, level, V, mode, rich):
    """Evaluator calls of a run: F = function request (one point, or a 2-D batch of points), G = gradient-only request
    (issued right after a function request at the same point: the cached-function path), FG = both in one call.
    The first call(s) are at the start vector ("init")."""
    if level == "evalstep":
        return [{"k": "F", "pts": None, "init": True, "nd": 1}]
    ops = [{"k": "FG", "pts": None, "init": True, "nd": 1}] if mode == "both" else \
        [{"k": "F", "pts": None, "init": True, "nd": 1}, {"k": "G", "pts": None, "init": True, "nd": 1}]
    for _ in range(rng.randint(1, 2) if rich else rng.choice([0, 0, 1, 2])):
        kind = rng.choice(["F1", "FB", "FB", "FthenG", "FG"])
        if kind == "F1":
            ops.append({"k": "F", "pts": [_point(rng, V)], "init": False, "nd": rng.choice([1, 2])})
        elif kind == "FB":
            pts = []
            while len(pts) < rng.randint(2, 3):
                q = _point(rng, V)
                if q not in pts:
                    pts.append(q)
            ops.append({"k": "F", "pts": pts, "init": False, "nd": 2})
        elif kind == "FthenG":
            q = _point(rng, V)
            ops += [{"k": "F", "pts": [q], "init": False, "nd": 1}, {"k": "G", "pts": [q], "init": False, "nd": 1}]
        else:
            ops.append({"k": "FG", "pts": [_point(rng, V)], "init": False, "nd": 1})
    return ops


def gen_case(rng, level=None, full=False, explicit=False, rich=False, basic_cfg=None):
    # BasicOptimizer is given the configuration as a dict (validated by BasicOptimizer itself, F11b: fixed by 8c7c19c)
    # or as an EnOptConfig validated beforehand with the transforms as context (what the test-suite does)
    basic_cfg = basic_cfg or rng.choice(["validated", "dict"])
    level = level or rng.choice(["evaluator", "evaluator", "evaluator", "evalstep", "optstep", "optstep", "basic"])
    V, R, P = rng.randint(1, 5), rng.randint(1, 3), rng.randint(1, 3)
    K, C = rng.randint(1, 2), rng.choice([0, 0, 1, 2])
    compact = V >= 2 and rng.random() < 0.15          # uniform settings written as scalars in the configuration
    lb, ub, x0, mag, ptype, btype = [], [], [], [], [], []
    for i in range(V):
        if compact and i > 0:
            pt, l, u = ptype[0], lb[0], ub[0]
        else:
            pt = rng.choice([1, 1, 2])
            k = rng.choice(["ab", "ab", "ab", "ab", "eq"]) if pt == 2 else rng.choice(["nb", "free", "ab", "ab", "ap"])
            l, u = _kind_bounds(rng, k)
        lb.append(l)
        ub.append(u)
        if math.isfinite(l) and math.isfinite(u):
            v = l + (u - l) * rng.choice([0.0, 0.25, 0.5, 0.5, 0.75, 1.0])
        elif math.isfinite(l):
            v = l + rng.choice([0.0, 0.25, 1.0])
        elif math.isfinite(u):
            v = u - rng.choice([0.0, 0.25, 1.0])
        else:
            v = _dy(rng, -2, 2)
        if rng.random() < 0.1:
            v += rng.choice([-0.5, 0.5])        # initial point outside its bounds
        x0.append(v)
        ptype.append(pt)
        if compact and i > 0:
            mag.append(mag[0])
            btype.append(btype[0])
        else:
            mag.append(rng.choice([0.125, 0.25, 0.5]) if pt == 2 else rng.choice([0.125, 0.5, 1.0, 2.0]))
            btype.append(rng.choice([1, 2, 3, 3]))
    samples = [[[rng.choice([0.0, 0.5, -0.5, 1.0, -1.0, 1.5, -2.0, 3.0, -3.5, 6.0, -7.0, 0.125]) for _ in range(V)]
                for _ in range(P)] for _ in range(R)]
    weights = [rng.choice([1.0, 1.0, 2.0, 0.5]) for _ in range(R)]
    obj_w = [rng.choice([1.0, 2.0, 0.5]) for _ in range(K)]
    fun = {"a": [[[_dy(rng, -2, 2, 4) for _ in range(V)] for _ in range(R)] for _ in range(K + C)],
           "b": [[_dy(rng, -2, 2, 4) for _ in range(R)] for _ in range(K + C)],
           "q": [rng.choice([0.0, 0.25, 0.5, 1.0]) for _ in range(K + C)]}
    lin = None
    if rng.random() < 0.6:
        m = rng.randint(1, 3)
        A = [[rng.choice([0.0, 1.0, -1.0, 0.5, 2.0, -1.5, 0.25]) for _ in range(V)] for _ in range(m)]
        for r in A:
            if all(a == 0 for a in r):
                r[rng.randrange(V)] = rng.choice([1.0, -2.0])
        bnds = [_kind_bounds(rng, rng.choice(["nb", "ab", "eq", "ap", "free"]), -3, 2) for _ in range(m)]
        lin = {"A": A, "lb": [b[0] for b in bnds], "ub": [b[1] for b in bnds]}
    nl = None
    if C:
        bnds = [_kind_bounds(rng, rng.choice(["nb", "ab", "eq", "ap", "free"]), -3, 2) for _ in range(C)]
        nl = {"lb": [b[0] for b in bnds], "ub": [b[1] for b in bnds]}
    pool = SC_DY + (SC_ND if full or rng.random() < 0.35 else [])
    # the variable transform and the function transforms are chosen independently (each alone, and all together)
    vm = rng.choice(["so", "so", "so", "so", "s", "s", "o", "id", "-"])
    fm = rng.choice(["-", "-", "-", "obj", "nl", "obj+nl", "obj+nl"])
    if vm == "-" and (fm == "-" or (fm == "nl" and not C)):
        vm = "so"
    tr = {"scales": None, "offsets": None, "obj_scales": None, "nl_scales": None, "identity": vm == "id", "scales1": False}
    if "s" in vm:
        if not full and V >= 2 and rng.random() < 0.12:       # one scale for all variables, given as a 1-element array
            tr["scales"] = [rng.choice([s for s in pool if s != 1.0])] * V
            tr["scales1"] = True
        else:
            tr["scales"] = [rng.uniform(0.2, 5.0) if full else rng.choice(pool) for _ in range(V)]
    if "o" in vm:
        tr["offsets"] = [rng.uniform(-2, 2) if full else _dy(rng, -2, 2) for _ in range(V)]
    if "obj" in fm:
        tr["obj_scales"] = [rng.choice(pool) for _ in range(K)]
    if "nl" in fm and C:
        tr["nl_scales"] = [rng.choice(pool) for _ in range(C)]
    points = []
    for _ in range(4):
        p = []
        for l, u in zip(lb, ub):
            c = rng.random()
            if c < 0.25 and math.isfinite(l):
                p.append(l - rng.choice([0.0, 0.125, 1.0]))
            elif c < 0.5 and math.isfinite(u):
                p.append(u + rng.choice([0.0, 0.125, 1.0]))
            else:
                p.append(_dy(rng, -3, 3))
        points.append(p)
    mode = rng.choice(["both", "split"])
    case = {"level": level, "mode": mode, "x0": x0, "lb": lb, "ub": ub, "mag": mag, "ptype": ptype,
            "btype": btype, "samples": samples, "weights": weights, "obj_w": obj_w, "fun": fun, "lin": lin, "nl": nl, "tr": tr,
            "points": points, "explicit": None, "ops": _gen_ops(rng, level, V, mode, rich), "compact": compact,
            "reuse": vm != "-" and rng.random() < 0.3, "decoy": rng.choice(["rows3", "same-rows", "same-rows"]),
            "basic_cfg": basic_cfg,
            "_tag": "full" if full else ("rich" if rich else "dyadic")}
    if explicit and level in ("evalstep", "optstep"):
        case["explicit"] = [_dy(rng, -2, 2) for _ in range(V)]
        case["_tag"] = "explicit"
    return case


def gen_cases(tier, rng):
    n, nr, nf, ne = (330, 90, 60, 24) if tier == "quick" else (6500, 1500, 1500, 300)
    for _ in range(n):
        yield gen_case(rng)
    for _ in range(nr):                        # batches / gradient-only requests / several evaluations per run
        yield gen_case(rng, level=rng.choice(["evaluator", "optstep", "optstep", "basic"]), rich=True)
    for _ in range(nf):
        yield gen_case(rng, full=True)
    for _ in range(ne):
        yield gen_case(rng, level=rng.choice(["evalstep", "optstep"]), explicit=True)


# ---- running the real code --------------------------------------------------------
def _has_var_transform(case):
    tr = case["tr"]
    return tr is not None and (tr["scales"] is not None or tr["offsets"] is not None or bool(tr.get("identity")))


def _make_transforms(case):
    import numpy as np
    from ropt.transforms import OptModelTransforms, VariableScaler
    from ropt.transforms.base import NonLinearConstraintTransform, ObjectiveTransform

    class ObjectiveScaler(ObjectiveTransform):
        def __init__(self, scales):
            self._scales = scales

        def to_optimizer(self, objectives):
            return objectives / self._scales

        def from_optimizer(self, objectives):
            return objectives * self._scales

    class ConstraintScaler(NonLinearConstraintTransform):
        def __init__(self, scales):
            self._scales = scales

        def bounds_to_optimizer(self, lower_bounds, upper_bounds):
            return lower_bounds / self._scales, upper_bounds / self._scales

        def to_optimizer(self, constraints):
            return constraints / self._scales

        def from_optimizer(self, constraints):
            return constraints * self._scales

        def nonlinear_constraint_diffs_from_optimizer(self, lower_diffs, upper_diffs):
            return lower_diffs * self._scales, upper_diffs * self._scales

    tr = case["tr"]
    arr = lambda v: None if v is None else np.array(v, dtype=float)  # noqa: E731
    scales = arr(tr["scales"])
    if scales is not None and tr.get("scales1"):
        scales = scales[:1]                    # one scale for all variables: broadcast by the scaler / by NumPy
    var = VariableScaler(scales, arr(tr["offsets"])) if _has_var_transform(case) else None
    obj = None if tr["obj_scales"] is None else ObjectiveScaler(arr(tr["obj_scales"]))
    nl = None if tr["nl_scales"] is None else ConstraintScaler(arr(tr["nl_scales"]))
    return OptModelTransforms(variables=var, objectives=obj, nonlinear_constraints=nl)


def _config_dict(case):
    compact = bool(case.get("compact"))
    one = lambda v: v[0] if compact and all(x == v[0] for x in v) else list(v)  # noqa: E731
    d = {"variables": {"initial_values": list(case["x0"]), "lower_bounds": one(case["lb"]),
                       "upper_bounds": one(case["ub"])},
         "objectives": {"weights": list(case["obj_w"])},
         "realizations": {"weights": list(case["weights"])},
         "gradient": {"number_of_perturbations": len(case["samples"][0]), "perturbation_magnitudes": one(case["mag"]),
                      "perturbation_types": one(case["ptype"]), "boundary_types": one(case["btype"])},
         "samplers": [{"method": "injected"}],
         "optimizer": {"method": "scripted"}}
    if case["lin"] is not None:
        d["linear_constraints"] = {"coefficients": case["lin"]["A"], "lower_bounds": case["lin"]["lb"],
                                   "upper_bounds": case["lin"]["ub"]}
    if case["nl"] is not None:
        d["nonlinear_constraints"] = {"lower_bounds": case["nl"]["lb"], "upper_bounds": case["nl"]["ub"]}
    return d


def _failing_probe(case, transforms):
    """An evaluator step at the start vector whose evaluation fails for every realization (no function values): the
    constraint info of the delivered result(s): (user domain, optimizer domain)."""
    import numpy as np
    from ropt.enums import EventType
    from ropt.evaluator import EvaluatorResult
    from ropt.plan import OptimizerContext, Plan
    K = len(case["obj_w"])
    C = 0 if case["nl"] is None else len(case["nl"]["lb"])
    got = {}

    def evaluator(variables, context):
        n = variables.shape[0]
        return EvaluatorResult(objectives=np.full((n, K), np.nan), constraints=np.full((n, C), np.nan) if C else None)

    def observer(event):
        res = event.data["results"]
        tr = event.data.get("transformed_results", res)
        got["user"], got["opt"] = res[0], tr[0]

    install, PluginManager = _plugins(case, lambda p: p)
    context = OptimizerContext(evaluator=evaluator, plugin_manager=install(PluginManager()))
    context.add_observer(EventType.FINISHED_EVALUATION, observer)
    plan = Plan(context)
    step = plan.add_step("evaluator")
    plan.run_step(step, config=_config_dict(case), transforms=transforms)
    return {"user": _info(got["user"].constraint_info), "opt": _info(got["opt"].constraint_info),
            "has_functions": got["user"].functions is not None}


def _decoy_dict(case):
    """Another configuration of the same size with different linear constraints: validated with the same transforms
    object before the run under test (a scaler object may serve several configurations one after the other)."""
    V = len(case["x0"])
    d = _config_dict(case)
    if case["lin"] is not None and case.get("decoy", "rows3") == "same-rows":
        # same number of rows, every row scaled differently
        lin = case["lin"]
        d["linear_constraints"] = {"coefficients": [[a * (3.0 + i) for a in r] for i, r in enumerate(lin["A"])],
                                   "lower_bounds": list(lin["lb"]), "upper_bounds": list(lin["ub"])}
    else:
        d["linear_constraints"] = {"coefficients": [[3.0] * V, [0.5] + [0.0] * (V - 1), [-8.0] + [1.0] * (V - 1)],
                                   "lower_bounds": [-INF, -INF, -1.0], "upper_bounds": [1.0, 2.0, INF]}
    return d


def _plugins(case, to_opt):
    import numpy as np
    from ropt.plugins import PluginManager
    from ropt.plugins.optimizer.base import Optimizer, OptimizerPlugin
    from ropt.plugins.sampler.base import Sampler, SamplerPlugin
    samples = np.array(case["samples"], dtype=float)

    class InjSampler(Sampler):
        def __init__(self, enopt_config, sampler_index, mask, rng):
            pass

        def generate_samples(self):
            return samples.copy()

    class InjPlugin(SamplerPlugin):
        def create(self, enopt_config, sampler_index, mask, rng):
            return InjSampler(enopt_config, sampler_index, mask, rng)

        def is_supported(self, method):
            return method.lower() == "injected"

    class Scripted(Optimizer):
        """issues the evaluator calls of the case through the optimizer callback, starting at the vector it is given"""

        def __init__(self, config, optimizer_callback):
            self._cb = optimizer_callback

        def start(self, initial_values):
            for op in case["ops"]:
                if op["init"]:
                    y = initial_values
                else:
                    y = to_opt(np.array(op["pts"], dtype=float))
                    if op["nd"] == 1:
                        y = y[0]
                self._cb(y, return_functions="F" in op["k"], return_gradients="G" in op["k"])

        @property
        def allow_nan(self):
            return False

        @property
        def is_parallel(self):
            return True

    class ScriptedPlugin(OptimizerPlugin):
        def create(self, config, optimizer_callback):
            return Scripted(config, optimizer_callback)

        def is_supported(self, method):
            return method.lower() == "scripted"

    def install(pm):
        pm.add_plugin("sampler", "injected", InjPlugin())
        pm.add_plugin("optimizer", "scripted", ScriptedPlugin())
        return pm

    return install, PluginManager


def _fl(a):
    if a is None:
        return None
    import numpy as np
    return np.asarray(a, dtype=float).tolist()


def _info(ci):
    if ci is None:
        return None
    return {k: _fl(getattr(ci, k)) for k in
            ("bound_lower", "bound_upper", "bound_violation", "linear_lower", "linear_upper", "linear_violation",
             "nonlinear_lower", "nonlinear_upper", "nonlinear_violation")}


def _cfg_obs(config):
    lc, nc = config.linear_constraints, config.nonlinear_constraints
    return {"x0": _fl(config.variables.initial_values), "lb": _fl(config.variables.lower_bounds),
            "ub": _fl(config.variables.upper_bounds), "mag": _fl(config.gradient.perturbation_magnitudes),
            "lin": None if lc is None else {"A": _fl(lc.coefficients), "lb": _fl(lc.lower_bounds), "ub": _fl(lc.upper_bounds)},
            "nl": None if nc is None else {"lb": _fl(nc.lower_bounds), "ub": _fl(nc.upper_bounds)}}


def _result_obs(item):
    from ropt.results import FunctionResults
    if isinstance(item, FunctionResults):
        f = item.functions
        return {"type": "F", "variables": _fl(item.evaluations.variables), "objectives": _fl(item.evaluations.objectives),
                "constraints": _fl(item.evaluations.constraints),
                "f_objectives": None if f is None else _fl(f.objectives),
                "f_constraints": None if f is None else _fl(f.constraints),
                "info": _info(item.constraint_info)}
    return {"type": "G", "variables": _fl(item.evaluations.variables),
            "perturbed_variables": _fl(item.evaluations.perturbed_variables),
            "perturbed_objectives": _fl(item.evaluations.perturbed_objectives),
            "perturbed_constraints": _fl(item.evaluations.perturbed_constraints)}


def _one_run(case, transforms):
    """One run of the real code; returns the validated config, the evaluator requests and the results."""
    import numpy as np
    from ropt.config.enopt import EnOptConfig
    from ropt.ensemble_evaluator import EnsembleEvaluator
    from ropt.enums import EventType
    from ropt.evaluator import EvaluatorResult
    from ropt.plan import OptimizerContext, Plan
    fun, K = case["fun"], len(case["obj_w"])
    a, b, q = np.array(fun["a"], dtype=float), np.array(fun["b"], dtype=float), np.array(fun["q"], dtype=float)
    requests = []

    def evaluator(variables, context):
        requests.append(variables.copy().tolist())
        reals = np.asarray(context.realizations)
        vals = np.empty((variables.shape[0], a.shape[0]))
        for i in range(variables.shape[0]):
            x = variables[i]
            vals[i] = a[:, reals[i], :] @ x + b[:, reals[i]] + q * float(x @ x)
        return EvaluatorResult(objectives=vals[:, :K], constraints=vals[:, K:] if a.shape[0] > K else None)

    to_opt = (lambda p: np.array(p, dtype=float)) if transforms is None or transforms.variables is None else \
        (lambda p: transforms.variables.to_optimizer(np.array(p, dtype=float)))
    install, PluginManager = _plugins(case, to_opt)
    if transforms is not None and transforms.variables is not None and case.get("reuse"):
        EnOptConfig.model_validate(_decoy_dict(case), context=transforms)
    user, opt = [], []
    level = case["level"]
    if level == "evaluator":
        config = EnOptConfig.model_validate(_config_dict(case), context=transforms)
        ee = EnsembleEvaluator(config, transforms, evaluator, install(PluginManager()))
        res = []
        for op in case["ops"]:
            if op["init"]:
                y = config.variables.initial_values
            else:
                y = to_opt(op["pts"])
                if op["nd"] == 1:
                    y = y[0]
            res += list(ee.calculate(y, compute_functions="F" in op["k"], compute_gradients="G" in op["k"]))
        opt = res
        user = res if transforms is None else [r.transform_from_optimizer(transforms) for r in res]
    else:
        seen = {}

        def observer(event):
            user.extend(event.data["results"])
            opt.extend(event.data.get("transformed_results", event.data["results"]))
            seen["config"] = event.config

        if level == "basic":
            from ropt.plan import BasicOptimizer
            cfg = _config_dict(case)
            if case.get("basic_cfg", "validated") == "validated":
                # the documented use with transforms: a configuration validated with the transforms as context
                cfg = EnOptConfig.model_validate(cfg, context=transforms)
            bo = BasicOptimizer(cfg, evaluator, transforms=transforms)
            ctx = bo._optimizer_context        # noqa: SLF001  (no public way to add plug-ins / observers of raw events)
            install(ctx.plugin_manager)
            ctx.add_observer(EventType.FINISHED_EVALUATION, observer)
            bo.run()
            kept = {"best": bo.results}
        else:
            context = OptimizerContext(evaluator=evaluator, plugin_manager=install(PluginManager()))
            context.add_observer(EventType.FINISHED_EVALUATION, observer)
            plan = Plan(context)
            step = plan.add_step("evaluator" if level == "evalstep" else "optimizer")
            # trackers without a constraint tolerance: "last" must retain the last delivered function result, "best" one
            # of the delivered ones -- as the user-domain objects of the `results` tuples, never the transformed ones
            t_last = plan.add_handler("tracker", what="last", constraint_tolerance=None, sources={step})
            t_best = plan.add_handler("tracker", what="best", constraint_tolerance=None, sources={step})
            kw = {} if case["explicit"] is None else {"variables": list(case["explicit"])}
            plan.run_step(step, config=_config_dict(case), transforms=transforms, **kw)
            kept = {"last": plan.get(t_last, "results"), "best": plan.get(t_best, "results")}
        config = seen["config"]
        tracked = {}
        for name, obj in kept.items():
            if obj is None:
                tracked[name] = {"index": None}
                continue
            hits = [i for i, r in enumerate(user) if r is obj]
            tracked[name] = {"index": hits[-1] if hits else -1, "is_transformed_object": any(r is obj for r in opt) and not hits,
                             "result": _result_obs(obj)}
    out = {"cfg": _cfg_obs(config), "requests": requests, "user": [_result_obs(r) for r in user],
           "opt": [_result_obs(r) for r in opt]}
    if level != "evaluator":
        out["tracked"] = tracked
    return out


def run_impl(case):
    import warnings

    import numpy as np
    warnings.simplefilter("ignore")
    plain = _one_run(case, None)
    transforms = _make_transforms(case)
    scaled = _one_run(case, transforms)
    del plain["opt"]
    var = transforms.variables
    pts = []
    for p in case["points"]:
        p = np.array(p, dtype=float)
        y = p if var is None else var.to_optimizer(p)
        back = y if var is None else var.from_optimizer(y)
        pts.append({"y": _fl(y), "back": _fl(back)})
    # the equation scaling is state of the scaler object: only meaningful for a configuration with linear constraints
    eq = None if var is None or case["lin"] is None else getattr(var, "_equation_scaling", None)
    fp, fs = _failing_probe(case, None), _failing_probe(case, transforms)
    return {"plain": plain, "scaled": scaled, "points": pts, "eq": _fl(eq),
            "fail": {"plain": fp["user"], "scaled": fs["user"], "scaled_opt": fs["opt"],
                     "has_functions": fp["has_functions"] or fs["has_functions"]}}


# ---- Gallina printing -----------------------------------------------------------------
def _opt(x, f):
    return "None" if x is None else f"(Some {f(x)})"


def _tens(t):
    return cq.lst(cq.qmat(m) for m in t)


def _fam_term(info, name):
    if info is None or info.get(name + "_lower") is None:
        return "None"
    v = info.get(name + "_violation")
    return (f"(Some (fam {cq.ers(info[name + '_lower'])} {cq.ers(info[name + '_upper'])} "
            f"{cq.ers(v if v is not None else [])}))")


def _info_term(info):
    if info is None:
        return "None"
    return f"(Some (info {_fam_term(info, 'bound')} {_fam_term(info, 'linear')} {_fam_term(info, 'nonlinear')}))"


def _lin_term(lin):
    return "None" if lin is None else f"(Some (lin {cq.qmat(lin['A'])} {cq.ers(lin['lb'])} {cq.ers(lin['ub'])}))"


def _nl_term(nl):
    return "None" if nl is None else f"(Some ({cq.ers(nl['lb'])}, {cq.ers(nl['ub'])}))"


def _res_term(r):
    if r["type"] == "F":
        return ("(RF " + " ".join([cq.qs(r["variables"]), cq.qmat(r["objectives"]), _opt(r["constraints"], cq.qmat),
                                   _opt(r["f_objectives"], cq.qs), _opt(r["f_constraints"], cq.qs),
                                   _info_term(r["info"])]) + ")")
    return ("(RG " + " ".join([cq.qs(r["variables"]), _tens(r["perturbed_variables"]), _tens(r["perturbed_objectives"]),
                               _opt(r["perturbed_constraints"], _tens)]) + ")")


def _run_term(run):
    c = run["cfg"]
    return ("(Build_runobs " + " ".join([cq.qs(c["x0"]), cq.ers(c["lb"]), cq.ers(c["ub"]), cq.qs(c["mag"]), _lin_term(c["lin"]),
                                         _nl_term(c["nl"]), _tens(run["requests"]),
                                         cq.lst(_res_term(r) for r in run["user"])]) + ")")


def _finite(vals):
    out = []
    for v in vals:
        if v is None or isinstance(v, (str, bool)):
            continue
        if isinstance(v, (list, tuple)):
            out += _finite(v)
        elif isinstance(v, dict):
            out += _finite(v.values())
        elif isinstance(v, (int, float)) and math.isfinite(v):
            out.append(abs(float(v)))
    return out


def _scale(case, obs):
    return max([1.0] + _finite([{k: v for k, v in case.items() if not k.startswith("_")}, obs]))


def _calls(case):
    p0 = case["explicit"] if case["explicit"] is not None else case["x0"]
    kind = {"F": "RFunctions", "G": "RGradient", "FG": "RBoth"}
    return [(kind[op["k"]], [p0] if op["init"] else op["pts"]) for op in case["ops"]]


def _trk_run_term(case, run):
    tk = run["tracked"]
    oz = lambda t: "None" if t is None or t["index"] is None else f"(Some ({int(t['index'])})%Z)"  # noqa: E731
    return ("(Build_trkrun " + " ".join([cq.b("last" in tk), oz(tk.get("last")), cq.b("best" in tk),
                                         cq.b(case["level"] != "basic"), oz(tk.get("best"))]) + ")")


def _trk_term(case, obs):
    P, T = obs["plain"], obs["scaled"]
    if P.get("tracked") is None or T.get("tracked") is None:
        return "None"
    return f"(Some ({_trk_run_term(case, P)}, {_trk_run_term(case, T)}))"


def _fail_term(obs):
    f = obs.get("fail")
    if f is None:
        return "None"
    return f"(Some ({_info_term(f['plain'])}, {_info_term(f['scaled'])}, {_info_term(f['scaled_opt'])}))"


def coq_case(case, obs):
    V = len(case["x0"])
    tr = case["tr"]
    ss = tr["scales"] if tr["scales"] is not None else [1.0] * V
    os_ = tr["offsets"] if tr["offsets"] is not None else [0.0] * V
    fs = tr["obj_scales"] if tr["obj_scales"] is not None else [1.0] * len(case["obj_w"])
    pcodes, bcodes = cq.zs(case["ptype"]), cq.zs(case["btype"])
    user = (f"(Build_ucfg {cq.qs(case['x0'])} {cq.ers(case['lb'])} {cq.ers(case['ub'])} {cq.qs(case['mag'])} "
            f"(map pt {pcodes}) (map bt {bcodes}))")
    calls = cq.lst(f"({k}, {cq.qmat(ps)})" for k, ps in _calls(case))
    points = cq.lst(f"({cq.qs(p)}, {cq.qs(o['y'])}, {cq.qs(o['back'])})" for p, o in zip(case["points"], obs["points"]))
    return ("(Chk_C11.Build_case " + " ".join([
        cq.q(_scale(case, obs)), f"(codes_ok {pcodes} {bcodes})", user, _lin_term(case["lin"]), _nl_term(case["nl"]),
        cq.b(_has_var_transform(case)), cq.qs(ss), cq.qs(os_), cq.qs(fs), _opt(tr["nl_scales"], cq.qs),
        cq.nat(len(case["weights"])), _tens(case["samples"]), calls, _run_term(obs["plain"]), _run_term(obs["scaled"]),
        cq.lst(_res_term(r) for r in obs["scaled"]["opt"]), _opt(obs["eq"], cq.qs), points, _trk_term(case, obs),
        _fail_term(obs)]) + ")")


# ---- the property evaluated directly on the implementation's output -----------------------
def _flat(x):
    if x is None:
        return [None]
    if isinstance(x, (list, tuple)):
        out = [("len", len(x))]
        for v in x:
            out += _flat(v)
        return out
    if isinstance(x, dict):
        out = []
        for k in sorted(x):
            out += [k] + _flat(x[k])
        return out
    return [x]


def _same(a, b, S):
    """Structural equality with the tolerance rule on floats (infinities exact)."""
    fa, fb = _flat(a), _flat(b)
    if len(fa) != len(fb):
        return False
    for u, v in zip(fa, fb):
        if isinstance(u, float) and isinstance(v, float):
            if math.isnan(u) or math.isnan(v):
                return False
            if math.isinf(u) or math.isinf(v):
                if u != v:
                    return False
            elif abs(u - v) > 1e-12 * S + 1e-9 * abs(v):
                return False
        elif u != v:
            return False
    return True


def _feasible(lb, ub, lin, x, margin):
    """(feasible, near_boundary) of a point for bounds + linear constraints, exact rationals."""
    near, ok = False, True
    rows = [(Fraction(v), l, u) for v, l, u in zip(x, lb, ub)]
    if lin is not None:
        for r, l, u in zip(lin["A"], lin["lb"], lin["ub"]):
            rows.append((sum(Fraction(a) * Fraction(v) for a, v in zip(r, x)), l, u))
    for v, l, u in rows:
        for b, sign in ((l, 1), (u, -1)):
            if math.isinf(b):
                if (b > 0 and sign > 0) or (b < 0 and sign < 0):
                    ok = False
                continue
            d = sign * (v - Fraction(b))
            if abs(d) <= margin:
                near = True
            if d < 0:
                ok = False
    return ok, near


def oracle(case, obs):
    S = _scale(case, obs)
    P, T = obs["plain"], obs["scaled"]
    if not _same(P["requests"], T["requests"], S):
        return {"clause": "requests_invariant",
                "detail": {"plain_first_call": P["requests"][:1], "scaled_first_call": T["requests"][:1]}}
    if len(P["user"]) != len(T["user"]):
        return {"clause": "results_invariant", "detail": "different number of results"}
    for k, (a, b) in enumerate(zip(P["user"], T["user"])):
        for key in a:
            if not _same(a[key], b.get(key), S):
                return {"clause": "results_invariant", "detail": {"result": k, "field": key, "plain": a[key], "scaled": b.get(key)}}
    # function requests hand the evaluator the user's own points (each R times, in order), and every function result
    # reports the user's point: stated against the case, not against the other run
    R = len(case["weights"])
    if not (case["explicit"] is not None and _has_var_transform(case)):
        want = []
        for (kind, pts), call in zip(_calls(case), T["requests"]):
            rows = [[float(v) for v in q] for q in pts for _ in range(R)]
            if kind == "RFunctions" and not _same(call, rows, S):
                return {"clause": "function_request_is_user_point", "detail": {"points": pts, "evaluator_received": call}}
            if kind != "RFunctions" and not _same(call[:R] if kind == "RBoth" else [], rows if kind == "RBoth" else [], S):
                return {"clause": "function_request_is_user_point", "detail": {"points": pts, "evaluator_received": call[:R]}}
            want += [("F", q) for q in pts] if kind == "RFunctions" else ([("F", pts[0]), ("G", pts[0])] if kind == "RBoth" else [("G", pts[0])])
        got = [(r["type"], r["variables"]) for r in T["user"]]
        if len(got) != len(want) or any(g[0] != w[0] or not _same(g[1], [float(v) for v in w[1]], S) for g, w in zip(got, want)):
            return {"clause": "result_variables_are_user_points", "detail": {"expected": want, "reported": got}}
    # what the trackers of a step-level run retained: the user-domain object of the delivered `results`, the same one
    # (by position in the delivery order) with and without transforms for a "last" tracker without tolerance
    for name, run in (("plain", P), ("scaled", T)):
        tk = run.get("tracked")
        if tk is None:
            continue
        f_idx = [i for i, r in enumerate(run["user"]) if r["type"] == "F" and r["f_objectives"] is not None]
        for what, t in tk.items():
            if t["index"] == -1:
                return {"clause": "results_invariant",
                        "detail": {"result": f"retained by the '{what}' tracker ({name} run)", "field": "identity",
                                   "is_the_transformed_result_object": t.get("is_transformed_object"),
                                   "retained": t["result"], "delivered_user_results": run["user"][-1:]}}
            if what == "last" and t["index"] != (f_idx[-1] if f_idx else None):
                return {"clause": "results_invariant", "detail": {"result": f"retained by the 'last' tracker ({name} run)",
                                                                  "field": "index", "retained": t["index"], "expected": f_idx[-1:]}}
            if what == "best" and case["level"] != "basic" and f_idx and t["index"] not in f_idx:
                return {"clause": "results_invariant", "detail": {"result": f"retained by the 'best' tracker ({name} run)",
                                                                  "field": "index", "retained": t["index"], "expected_one_of": f_idx}}
    if P.get("tracked") and T.get("tracked") and "last" in P["tracked"] and P["tracked"]["last"]["index"] is not None \
            and T["tracked"]["last"]["index"] is not None:
        a, b = P["tracked"]["last"]["result"], T["tracked"]["last"]["result"]
        for key in a:
            if not _same(a[key], b.get(key), S):
                return {"clause": "results_invariant", "detail": {"result": "retained by the 'last' tracker", "field": key,
                                                                  "plain": a[key], "scaled": b.get(key)}}
    # a result without function values (failed evaluation): bound / linear differences and violations depend on the
    # variables only and must be reported alike with and without transforms
    f = obs.get("fail")
    if f is not None:
        if f["has_functions"]:
            return {"clause": "failing_probe_has_functions", "detail": "the all-NaN evaluation produced function values"}
        if not _same(f["plain"], f["scaled"], S):
            return {"clause": "results_invariant", "detail": {"result": "failed evaluation (no function values)",
                                                              "field": "info", "plain": f["plain"], "scaled": f["scaled"]}}
    margin = Fraction(S) / 10**6
    for p, o in zip(case["points"], obs["points"]):
        if not _same(o["back"], [float(v) for v in p], S):
            return {"clause": "roundtrip", "detail": {"point": p, "back": o["back"]}}
        fu, near = _feasible(case["lb"], case["ub"], case["lin"], p, margin)
        fo, near2 = _feasible(T["cfg"]["lb"], T["cfg"]["ub"], T["cfg"]["lin"], o["y"], margin)
        if fu != fo and not near:
            return {"clause": "feasibility_iff", "detail": {"point": p, "image": o["y"], "user_feasible": fu,
                                                           "optimizer_feasible": fo}}
    return None


def _neutral(case):
    tr = case["tr"]
    return ((tr["scales"] is None or all(s == 1.0 for s in tr["scales"]))
            and (tr["offsets"] is None or all(o == 0.0 for o in tr["offsets"])))


def nontrivial(case, obs):
    tr = case["tr"]
    fneutral = all(s == 1.0 for s in (tr["obj_scales"] or []) + (tr["nl_scales"] or []))
    return not (_neutral(case) and fneutral)


def _bounds_active(case, obs):
    """Some perturbed row differs from x + (user-domain magnitude) * sample, i.e. boundary handling acted."""
    mags = obs["plain"]["cfg"]["mag"]
    for (kind, pts), call in zip(_calls(case), obs["plain"]["requests"]):
        if kind == "RFunctions":
            continue
        x = [float(v) for v in pts[0]]
        raw = [[xv + m * z for xv, m, z in zip(x, mags, zr)] for zs in case["samples"] for zr in zs]
        if any(r not in raw and r != x for r in call):
            return True
    return False


def features(case, obs):
    tr = case["tr"]
    ops = case["ops"]
    names = [k for k in ("scales", "offsets", "obj_scales", "nl_scales") if tr[k] is not None] + (["identity-scaler"] if tr.get("identity") else [])
    violated = any(v > 0 for r in obs["plain"]["user"] if r["type"] == "F" and r["info"] is not None
                   for k in ("bound_violation", "linear_violation", "nonlinear_violation") for v in (r["info"].get(k) or []))
    return {"level": case["level"] + ("-" + case.get("basic_cfg", "validated") if case["level"] == "basic" else ""),
            "mode": case["mode"] if case["level"] != "evalstep" else "-", "V": len(case["x0"]),
            "R": len(case["weights"]), "P": len(case["samples"][0]),
            "linear_rows": 0 if case["lin"] is None else len(case["lin"]["A"]),
            "nonlinear": 0 if case["nl"] is None else len(case["nl"]["lb"]),
            "transform": "+".join(names) or "none", "one_scale_for_all": bool(tr.get("scales1")),
            "relative_perturbation": 2 in case["ptype"], "mirror": 3 in case["btype"], "truncate": 2 in case["btype"],
            "boundary_handling_acted": _bounds_active(case, obs), "explicit_variables": case["explicit"] is not None,
            "calls": len(ops), "batched_function_request": any(op["k"] == "F" and not op["init"] and len(op["pts"]) > 1 for op in ops),
            "gradient_only_request": any(op["k"] == "G" for op in ops), "scalar_settings": bool(case.get("compact")),
            "scaler_served_another_config_before": bool(case.get("reuse")) and _has_var_transform(case),
            "some_violation_positive": violated, "tag": case.get("_tag", "corpus")}


def known_signature(case, obs, violation):
    """F11: a step-level run with an explicit variables= argument and a variable transform hands the
    evaluator from_optimizer(variables) instead of the variables."""
    if case["level"] not in ("evalstep", "optstep") or case["explicit"] is None or not _has_var_transform(case):
        return None
    if violation is None or violation.get("clause") != "requests_invariant":
        return None
    tr = case["tr"]
    V = len(case["x0"])
    ss = tr["scales"] or [1.0] * V
    os_ = tr["offsets"] or [0.0] * V
    wrong = [e * s + o for e, s, o in zip(case["explicit"], ss, os_)]
    S = _scale(case, obs)
    try:
        first_plain, first_scaled = obs["plain"]["requests"][0][0], obs["scaled"]["requests"][0][0]
    except (IndexError, KeyError):
        return None
    if _same(first_plain, [float(v) for v in case["explicit"]], S) and _same(first_scaled, wrong, S):
        return KNOWN_ID
    return None


def shrink(case):
    tr = case["tr"]
    for k in ("obj_scales", "nl_scales", "offsets", "scales"):
        if tr[k] is not None:
            yield {**case, "tr": {**tr, k: None}}
    if case["lin"] is not None:
        yield {**case, "lin": None}
        if len(case["lin"]["A"]) > 1:
            for i in range(len(case["lin"]["A"])):
                yield {**case, "lin": {k: v[:i] + v[i + 1:] for k, v in case["lin"].items()}}
    if len(case["ops"]) > 1:
        for i in range(len(case["ops"])):
            op = case["ops"][i]
            if op["k"] == "F" and i + 1 < len(case["ops"]) and case["ops"][i + 1]["k"] == "G":
                continue                       # a gradient-only request needs the function request before it
            yield {**case, "ops": case["ops"][:i] + case["ops"][i + 1:]}
    for i, op in enumerate(case["ops"]):
        if op["k"] == "F" and not op["init"] and len(op["pts"]) > 1:
            yield {**case, "ops": case["ops"][:i] + [{**op, "pts": op["pts"][:-1]}] + case["ops"][i + 1:]}
    if case.get("reuse"):
        yield {**case, "reuse": False}
    if case.get("compact"):
        yield {**case, "compact": False}
    if len(case["points"]) > 1:
        for i in range(len(case["points"])):
            yield {**case, "points": [case["points"][i]]}
    if len(case["samples"][0]) > 1:
        yield {**case, "samples": [zs[:1] for zs in case["samples"]]}
    if case["level"] in ("optstep", "basic") and case["explicit"] is None:
        yield {**case, "level": "evaluator"}
    if any(t != 1 for t in case["btype"]):
        yield {**case, "btype": [1] * len(case["btype"])}


def search(rng, case):
    for _ in range(300):
        yield gen_case(rng)
    for _ in range(100):
        yield gen_case(rng, level=rng.choice(["evaluator", "optstep", "basic"]), rich=True)


MANIFEST = {
    "level_text": ("Machine-checked Coq proof over exact rationals, for all vector lengths, positive scales and arbitrary offsets, that the "
                   "executable model of the scaling transforms (Model/Transforms.v) satisfies: to/from_optimizer are mutually inverse; a point "
                   "satisfies the user's bounds and linear constraints (any bound kinds, non-zero rows) iff its image satisfies the transformed "
                   "ones, and the back-transformed differences are exactly the user-domain differences; validated perturbation magnitudes are the "
                   "user-domain magnitude divided by the scale for absolute and relative types; the boundary handling of perturbations "
                   "(NONE / TRUNCATE_BOTH / MIRROR_BOTH, any repeat count) commutes with the positive affine map, so every component of every "
                   "vector handed to the evaluator -- single vectors, batches and perturbed vectors -- is the user-domain expression "
                   "apply_bounds(x + m_user z) and equals the one of the untransformed run; per-realization values, function "
                   "values of any positively homogeneous estimator and all constraint differences / violations are unchanged. The model is tied "
                   "to the code on every run by paired runs of the real code (without / with transforms, same injected samples; "
                   "EnsembleEvaluator, evaluator step, optimizer step, BasicOptimizer) compared inside Coq with each other and with the model."),
    "level_note": ("Trusted: Coq kernel + VM; the Python drivers (injected sampler plug-in, scripted optimizer plug-in, recording evaluator) and "
                   "exact rational printing. Objective / constraint transforms are the diagonal positive scalers of the test-suite (the base "
                   "classes are abstract); the estimator is a section hypothesis (positive homogeneity; instantiated with the weighted mean, the "
                   "function values themselves are compared between the two real runs, not recomputed by the model); "
                   "weighted objective and gradients legitimately live in optimizer coordinates and are not compared; the position of the result a "
                   "'last' / 'best' tracker retains is checked inside Coq against the tracker model of Model/ConstraintInfo.v "
                   "(C11_last_tracker_invariant; C12's Model/Tracker.v is not imported); evaluations that fail "
                   "(NaN) do not occur in the paired runs. Known finding "
                   "C11:explicit-step-variables (explicit variables= of a step is taken as optimizer-domain) is re-confirmed on tagged cases and "
                   "reported as KNOWN-FINDING; F11b (BasicOptimizer validated a configuration dict without the transforms) is fixed by 8c7c19c "
                   "and its input is in corpus/C11. All theorems print 'Closed under the global context'."),
    "technique": "Coq proof (list induction, field/lra over Q, extended reals) on an executable Gallina model + in-Coq paired-run differential correspondence with the real transforms, configuration validation, EnsembleEvaluator, plan steps and BasicOptimizer",
    "design_ref": "DESIGN.md section 4, C11",
}
