"""C14 -- every run ends with the documented exit code under any failure pattern.

Correspondence: real `Plan`s with one optimizer step (driven by a scripted optimizer plug-in that issues
F / G / FG requests, single vectors or batches, through the OptimizerCallback) or one evaluator step,
and a fault-injecting evaluator (NaN masks per (vector, realization) and per (realization, perturbation),
raising OptimizationAborted(USER_ABORT), raising ValueError).  The outcome (exit code or exception
class), the delivered results (kind, functions/gradients present, all realizations failed) and the
event list are compared exactly with Model/Step.v inside Coq.
"""
from __future__ import annotations

import itertools

import coqio as cq

ID = "C14"
THEOREM_FILE = "Props/C14.v"
CHK_MODULE = "Check.Chk_C14"
CASE_TYPE = "Chk_C14.case"
CHECK_FN = "Chk_C14.check_case"
HEADER = "From Ropt Require Import Model.Step."
SHARD_SIZE = 1500
PARALLEL = True
CASE_TIMEOUT = 60
EXHAUSTIVE = {"quick": False, "thorough": True}
ALLOWED_AXIOMS: list[str] = []

RULE = ("structured enumeration + seeded sampling of scripted runs: request scripts of length <= 3 over {F, G, FG, F-batch-2} at "
        "two points, one faulty evaluation (every index) with every failing (vector, realization) / (realization, perturbation) "
        "subset for R,P <= 2 (thorough: exhaustive; quick: all subsets for the single-evaluation scripts + a seeded sample of the "
        "rest), evaluator exceptions and evaluator-raised aborts, both step kinds, no filter / sort-objective / sort-constraint / "
        "cvar-objective / cvar-constraint, mean / stddev, no / variable / objective / constraint / all transforms, "
        "realization_min_success 0..R, perturbation_min_success 1..P, allow_nan on/off, max_functions None and every value up to "
        "the run length + 1; plus a random stream with R,P <= 3 and several faulty evaluations.  Non-trivial = the run contains at "
        "least one fault (NaN, exception, abort) or is stopped by the budget; distinct = distinct case dictionaries.")
ASSUMPTIONS = [
    "the optimizer back-end is a script of requests (kind, point, batch); real back-ends (SciPy) are covered by C07/C08",
    "the evaluator is deterministic given (call index, row): NaN masks, exceptions and aborts come from the fault script only",
    "realization weights are positive and equal; a realization filter, when configured, applies to the objective and the constraint",
    "filters rank realizations by a fixed per-realization offset (the `order` of the case), far larger than any perturbation effect",
    "CVaR percentiles are dyadic (1/4, 1/2, 3/4, 1) and R <= 4 so that int(p*n) and p - n_var/n are exact in floating point",
]
TRUSTED = [
    "the scripted optimizer plug-in, fault-injecting evaluator and recording observer of harness/props/C14.py",
    "transforms (variable / objective / constraint scalers) are exercised by the real code only; the model is transform-free "
    "(the compared facts - outcome, results delivered, events - must not depend on them)",
]

KINDS = ("F", "G", "FG")


# ---------------------------------------------------------------------------------------------
# real-code driver
# ---------------------------------------------------------------------------------------------
_ENV = None


def _env():
    """Build (once per process) the plug-in classes that need ropt imports."""
    global _ENV
    import ropt
    if _ENV is not None and _ENV["ropt"] is ropt:      # re-built when the runner re-imports ropt (forked workers)
        return _ENV
    import numpy as np
    from ropt.plugins.optimizer.base import Optimizer, OptimizerPlugin
    from ropt.transforms.base import NonLinearConstraintTransform, ObjectiveTransform

    class Scripted(Optimizer):
        queue: list = []         # one specification per optimizer instance, in order of creation
        evaluator = None         # the fault-injecting evaluator of the current run

        def __init__(self, config, cb):
            self.cb = cb
            self.spec = Scripted.queue.pop(0)

        def start(self, x0):
            nvar = x0.size
            ev = Scripted.evaluator
            saved = (ev.pending, ev.pcase)         # a nested run must not disturb the pending outer request
            try:
                for req in self.spec["script"]:
                    def point(p):
                        x = np.zeros(nvar)
                        x[0] = 0.25 * p
                        return x
                    if req["batch"] > 0:
                        x = np.vstack([point(req["pt"] + i) for i in range(req["batch"])])
                    else:
                        x = point(req["pt"])
                    # each request leads to exactly one evaluator call: announce its fault
                    ev.pending, ev.pcase = req.get("fault"), self.spec["case14"]
                    self.cb(x, return_functions=req["kind"] in ("F", "FG"), return_gradients=req["kind"] in ("G", "FG"))
            finally:
                ev.pending, ev.pcase = saved

        @property
        def allow_nan(self):
            return bool(self.spec["allow_nan"])

        @property
        def is_parallel(self):
            return any(r["batch"] > 0 for r in self.spec["script"])

    class ScriptedPlugin(OptimizerPlugin):
        def create(self, config, cb):
            return Scripted(config, cb)

        def is_supported(self, method):
            return method.lower() == "run"

    class ObjScaler(ObjectiveTransform):
        def __init__(self, s):
            self.s = s

        def to_optimizer(self, objectives):
            return objectives / self.s

        def from_optimizer(self, objectives):
            return objectives * self.s

    class ConScaler(NonLinearConstraintTransform):
        def __init__(self, s):
            self.s = s

        def bounds_to_optimizer(self, lower_bounds, upper_bounds):
            return lower_bounds / self.s, upper_bounds / self.s

        def to_optimizer(self, constraints):
            return constraints / self.s

        def from_optimizer(self, constraints):
            return constraints * self.s

        def nonlinear_constraint_diffs_from_optimizer(self, lower_diffs, upper_diffs):
            return lower_diffs * self.s, upper_diffs * self.s

    _ENV = {"ropt": ropt, "Scripted": Scripted, "ScriptedPlugin": ScriptedPlugin, "ObjScaler": ObjScaler, "ConScaler": ConScaler}
    return _ENV


def make_transforms(name):
    import numpy as np
    from ropt.transforms import OptModelTransforms, VariableScaler
    env = _env()
    if name == "none":
        return None
    kw = {}
    if name in ("variables", "all"):
        kw["variables"] = VariableScaler(np.array([2.0, 4.0]), np.array([0.5, -0.25]))
    if name in ("objectives", "all"):
        kw["objectives"] = env["ObjScaler"](np.array([2.0]))
    if name in ("constraints", "all"):
        kw["nonlinear_constraints"] = env["ConScaler"](np.array([4.0]))
    return OptModelTransforms(**kw)


def make_config(case, maxf="case"):
    R, P = case["R"], case["P"]
    cfg = {
        "variables": {"initial_values": [0.0, 0.0]},
        "objectives": {"weights": [1.0]},
        "nonlinear_constraints": {"lower_bounds": [-float("inf")], "upper_bounds": [1000.0]},
        "realizations": {"weights": [1.0] * R, "realization_min_success": case["rmin"]},
        "gradient": {"number_of_perturbations": P, "perturbation_min_success": case["pmin"]},
        "optimizer": {"method": "verifscript/run"},
    }
    if case.get("bounds"):
        cfg["variables"]["lower_bounds"] = [-10.0, -10.0]
        cfg["variables"]["upper_bounds"] = [10.0, 20.0]
    if case.get("linear"):
        cfg["linear_constraints"] = {"coefficients": [[1.0, 1.0]], "lower_bounds": [-50.0], "upper_bounds": [50.0]}
    mf = case.get("maxf") if maxf == "case" else maxf
    if mf is not None:
        cfg["optimizer"]["max_functions"] = mf
    f = case.get("filter")
    if f is not None:
        if f[0].startswith("sort"):
            opts = {"sort": [0] if f[0] == "sort-objective" else 0, "first": f[1], "last": f[2]}
        else:
            opts = {"sort": [0] if f[0] == "cvar-objective" else 0, "percentile": f[1]}
        cfg["realization_filters"] = [{"method": f[0], "options": opts}]
        cfg["objectives"]["realization_filters"] = [0]
        cfg["nonlinear_constraints"]["realization_filters"] = [0]
    if case.get("estimator", "mean") == "stddev":
        cfg["function_estimators"] = [{"method": "stddev"}]
    return cfg


class FaultEvaluator:
    """Deterministic evaluator: objective = |x - 0.5|^2 + 10 * rank offset of the realization; the
    constraint equals the objective; the pending fault (announced by the scripted optimizer / the
    driver just before the request) decides NaNs / exceptions."""

    def __init__(self):
        self.pending = None      # fault of the next call
        self.pcase = None        # C14-style configuration of the step that issues the call
        self.calls = 0

    def __call__(self, variables, ctx):
        import numpy as np
        from ropt.enums import OptimizerExitCode
        from ropt.evaluator import EvaluatorResult
        from ropt.exceptions import OptimizationAborted
        self.calls += 1
        f = self.pending
        if f is not None and f.get("exc") == "raise":
            raise ValueError("injected evaluator failure")
        if f is not None and f.get("exc") == "abort":
            raise OptimizationAborted(exit_code=OptimizerExitCode.USER_ABORT)
        order = self.pcase["order"]
        rank = {r: k for k, r in enumerate(order)}
        reals = np.asarray(ctx.realizations)
        perts = None if ctx.perturbations is None else np.asarray(ctx.perturbations)
        n = variables.shape[0]
        obj = np.zeros((n, 1))
        seen_f = {}
        for row in range(n):
            r = int(reals[row])
            obj[row, 0] = float(((variables[row] - 0.5) ** 2).sum()) + 10.0 * rank[r]
            if f is None:
                continue
            p = -1 if perts is None else int(perts[row])
            if p < 0:
                v = seen_f.get(r, 0)
                seen_f[r] = v + 1
                fm = f.get("fm") or []
                if v < len(fm) and fm[v][r]:
                    obj[row, 0] = np.nan
            else:
                pm = f.get("pm") or []
                if r < len(pm) and pm[r][p]:
                    obj[row, 0] = np.nan
        return EvaluatorResult(objectives=obj, constraints=obj.copy())


def _res_tuple(item):
    import numpy as np
    from ropt.results import FunctionResults
    allf = bool(np.all(item.realizations.failed_realizations))
    if isinstance(item, FunctionResults):
        return ["F", item.functions is not None, allf]
    return ["G", item.gradients is not None, allf]


def inner_case(case):
    """C14-style configuration of the nested runs: the outer configuration with its own budget and threshold."""
    n = case["nested"]
    return {**case, "maxf": n.get("maxf"), "rmin": n.get("rmin", case["rmin"]), "nested": None, "step": "optimizer"}


def run_impl(case):
    import warnings
    warnings.simplefilter("ignore")
    from ropt.enums import EventType
    from ropt.plan import OptimizerContext, Plan
    from ropt.plugins import PluginManager
    env = _env()
    Scripted = env["Scripted"]
    pm = PluginManager()
    pm.add_plugin("optimizer", "verifscript", env["ScriptedPlugin"]())
    script = case["script"]
    evaluator = FaultEvaluator()
    Scripted.evaluator = evaluator
    ctx = OptimizerContext(evaluator=evaluator, plugin_manager=pm)
    delivered, events, shapes_ok = [], [], [True]

    def on_results(e):
        res = e.data["results"]
        if case["transform"] != "none":
            tr = e.data.get("transformed_results")
            if tr is None or len(tr) != len(res):
                shapes_ok[0] = False
        delivered.extend(_res_tuple(r) for r in res)

    ctx.add_observer(EventType.FINISHED_EVALUATION, on_results)
    for et in EventType:
        ctx.add_observer(et, lambda e: events.append(int(e.event_type.value)))
    plan = Plan(ctx)
    transforms = make_transforms(case["transform"])
    cfg = make_config(case)
    inner = None
    try:
        if case["step"] == "optimizer":
            Scripted.queue[:] = [{"script": script, "allow_nan": case["allow_nan"], "case14": case}]
            st = plan.add_step("optimizer")
            kw = {}
            if case.get("nested") is not None:
                ic = inner_case(case)
                icfg = make_config(ic)
                for sc in case["nested"]["scripts"]:
                    Scripted.queue.append({"script": sc, "allow_nan": case["allow_nan"], "case14": ic})
                inner = Plan(ctx)
                ist = inner.add_step("optimizer")
                itr = inner.add_handler("tracker", sources={ist})

                def f(p, variables):
                    p.run_step(ist, config=icfg, variables=variables)
                    return p.get(itr, "results")

                inner.add_function(f)
                kw["nested_optimization"] = inner
            code = plan.run_step(st, config=cfg, transforms=transforms, **kw)
        else:
            req = script[0]
            st = plan.add_step("evaluator")
            if req["batch"] > 0:
                variables = [[0.25 * (req["pt"] + i), 0.0] for i in range(req["batch"])]
            else:
                variables = [0.25 * req["pt"], 0.0]
            evaluator.pending, evaluator.pcase = req.get("fault"), case
            code = plan.run_step(st, config=cfg, transforms=transforms, variables=variables)
        outcome = ["exit", int(code.value)]
    except BaseException as e:  # noqa: BLE001 - the class is the observation
        outcome = ["exc", type(e).__name__]
    return {"outcome": outcome, "delivered": delivered, "events": events, "calls": evaluator.calls,
            "aborted": bool(plan.aborted), "inner_aborted": bool(inner.aborted) if inner is not None else False,
            "transformed_ok": shapes_ok[0]}


# ---------------------------------------------------------------------------------------------
# independent Python oracle: the property's clauses evaluated on the implementation's output
# ---------------------------------------------------------------------------------------------
EXIT = {"TOO_FEW": 1, "MAX_FUNCTIONS": 2, "NESTED_FAILED": 3, "USER_ABORT": 4, "OPT_FINISHED": 5, "EVAL_FINISHED": 6}
EV = {"SE": 1, "FE": 2, "SO": 3, "FO": 4, "SES": 5, "FES": 6}


def _selected(case, failed):
    """Indices with a positive filter weight (None = no filter configured)."""
    f = case.get("filter")
    if f is None:
        return None
    ranked = [r for r in case["order"] if not failed[r]]
    if f[0].startswith("sort"):
        return set(ranked[f[1]: f[2] + 1])
    ranked = ranked[::-1]
    n = len(ranked)
    if n == 0:
        return set()
    from fractions import Fraction
    p = Fraction(f[1])
    nv = int(p * n)
    sel = set(ranked[:nv])
    if nv < n and p - Fraction(nv, n) > 0:
        sel.add(ranked[nv])
    return sel


def _nz(case, sel, failed):
    act = [r for r in range(case["R"]) if not failed[r] and (sel is None or r in sel)]
    return len(act) if act else case["R"]


def _fun_part(case, fm):
    sel = _selected(case, fm)
    if sel is not None and not sel:
        return ("filter",)
    ns = fm.count(False)
    if ns >= case["rmin"]:
        if all(fm):
            return ("res", True, True, sel)
        if case.get("estimator") == "stddev" and _nz(case, sel, fm) < 2:
            return ("estimator",)
        return ("res", True, False, sel)
    return ("res", False, all(fm), sel)


def _grad_part(case, fm, pm, sel):
    fg = [fm[r] or pm[r].count(False) < case["pmin"] for r in range(case["R"])]
    if fg.count(False) >= case["rmin"]:
        if case.get("estimator") == "stddev" and _nz(case, sel, fg) < 2:
            return ("estimator",)
        return ("res", True, all(fg))
    return ("res", False, all(fg))


def _masks(case, req):
    R, P = case["R"], case["P"]
    f = req.get("fault") or {}
    nv = max(1, req["batch"])
    fm = f.get("fm") or [[False] * R for _ in range(nv)]
    pm = f.get("pm") or [[False] * P for _ in range(R)]
    return fm, pm


def _eval_req(case, req, cache):
    """-> (tag, payload, counted, cache') ; tag in raise/abort/inside/results"""
    f = req.get("fault") or {}
    if f.get("exc") == "raise":
        return "raise", None, 0, cache
    if f.get("exc") == "abort":
        return "abort", None, 0, cache
    fm, pm = _masks(case, req)
    kind = req["kind"]
    if kind == "F":
        out = []
        for v in range(max(1, req["batch"])):
            fp = _fun_part(case, fm[v])
            if fp[0] != "res":
                return "inside", (fp[0], [["F", False, all(x)] for x in fm]), 0, cache
            out.append(fp)
        res = [["F", fp[1], fp[2]] for fp in out]
        return "results", res, len(res), (req["pt"], fm[0], out[0][3])
    if kind == "G" and cache is not None and cache[0] == req["pt"]:
        gp = _grad_part(case, cache[1], pm, cache[2])
        if gp[0] != "res":
            return "inside", (gp[0], [["G", False, False]]), 0, cache
        return "results", [["G", gp[1], gp[2]]], 0, cache
    fp = _fun_part(case, fm[0])
    if fp[0] != "res":
        return "inside", (fp[0], [["F", False, all(fm[0])], ["G", False, False]]), 0, None
    gp = _grad_part(case, fm[0], pm, fp[3])
    if gp[0] != "res":
        return "inside", (gp[0], [["F", fp[1], fp[2]], ["G", False, False]]), 0, None
    return "results", [["F", fp[1], fp[2]], ["G", gp[1], gp[2]]], (1 if kind == "FG" else 0), None


def expected(case):
    """Property-satisfying behaviour: first terminating condition decides; results of a too-few evaluation are delivered."""
    delivered, info = [], {"decider": None, "inside_results": None, "stop_index": None}
    if case["step"] == "evaluator":
        events = [EV["SES"], EV["SE"]]
        tag, payload, _, _ = _eval_req(case, case["script"][0], None)
        info["stop_index"] = 0
        if tag == "raise":
            info["decider"] = "raise"
            return {"outcome": ["exc", "ValueError"], "delivered": [], "events": events}, info
        if tag == "abort":
            info["decider"] = "abort"
            return {"outcome": ["exit", EXIT["USER_ABORT"]], "delivered": [], "events": events + [EV["FES"]]}, info
        if tag == "inside":
            info["decider"], info["inside_results"] = payload
            return {"outcome": ["exit", EXIT["TOO_FEW"]], "delivered": payload[1], "events": events + [EV["FE"], EV["FES"]]}, info
        few = any(not r[1] for r in payload)
        info["decider"] = "threshold" if few else None
        return {"outcome": ["exit", EXIT["TOO_FEW"] if few else EXIT["EVAL_FINISHED"]], "delivered": payload,
                "events": events + [EV["FE"], EV["FES"]]}, info
    return _expected_optimizer(case, info)


def _expected_optimizer(case, info, top=True):
    """Optimizer step (top = the step of the case; otherwise one nested run)."""
    delivered = []
    events = [EV["SO"]]
    completed, cache, out = 0, None, None
    check_failures = case["rmin"] < 1 and not case["allow_nan"]
    nested = case.get("nested") if top else None
    has = False
    for i, req in enumerate(case["script"]):
        if case.get("maxf") is not None and completed >= case["maxf"]:
            out, info["decider"], info["stop_index"] = EXIT["MAX_FUNCTIONS"], "budget", i
            break
        if nested is not None:
            # the nested plan runs before the outer evaluation; its tracker keeps the best trackable result
            iinfo = {"decider": None, "inside_results": None, "stop_index": None}
            iexp, iinfo = _expected_optimizer({**inner_case(case), "script": nested["scripts"][i]}, iinfo, top=False)
            delivered = delivered + iexp["delivered"]
            events = events + iexp["events"]
            has = has or any(r[0] == "F" and r[1] and not r[2] for r in iexp["delivered"])
            if iinfo["decider"] in ("filter", "estimator"):
                info["nested_inside"] = True
            if iexp["outcome"][0] == "exc":
                info["decider"], info["stop_index"] = "raise", i
                return {"outcome": iexp["outcome"], "delivered": delivered, "events": events}, info
            if iexp["outcome"][1] == EXIT["USER_ABORT"]:
                out, info["decider"], info["stop_index"] = EXIT["USER_ABORT"], "abort", i
                break
            if not has:
                out, info["decider"], info["stop_index"] = EXIT["NESTED_FAILED"], "nested-no-result", i
                break
        events.append(EV["SE"])
        tag, payload, counted, cache = _eval_req(case, req, cache)
        if tag == "raise":
            info["decider"], info["stop_index"] = "raise", i
            return {"outcome": ["exc", "ValueError"], "delivered": delivered, "events": events}, info
        if tag == "abort":
            out, info["decider"], info["stop_index"] = EXIT["USER_ABORT"], "abort", i
            break
        if tag == "inside":
            info["decider"], info["inside_results"] = payload
            info["stop_index"] = i
            delivered = delivered + payload[1]
            events.append(EV["FE"])
            out = EXIT["TOO_FEW"]
            break
        delivered = delivered + payload
        events.append(EV["FE"])
        if any((not r[1]) or (check_failures and r[2]) for r in payload):
            out, info["decider"], info["stop_index"] = EXIT["TOO_FEW"], "threshold", i
            break
        completed += counted
    if out is None:
        out = EXIT["OPT_FINISHED"]
    events.append(EV["FO"])
    return {"outcome": ["exit", out], "delivered": delivered, "events": events}, info


def _cache_respecting(case):
    cache = None
    for req in case["script"]:
        if req["kind"] == "F":
            cache = req["pt"]
        elif req["kind"] == "FG":
            cache = None
        elif cache != req["pt"]:
            return False
    return True


def oracle(case, obs):
    exp, info = expected(case)
    out = obs["outcome"]
    if out[0] == "exc" and (exp["outcome"][0] != "exc" or out[1] != exp["outcome"][1]):
        return {"clause": "internal-exception-instead-of-exit-code", "detail": {"got": out, "expected": exp["outcome"], "decider": info["decider"]}}
    if exp["outcome"][0] == "exc" and out[0] != "exc":
        return {"clause": "evaluator-exception-swallowed", "detail": {"got": out}}
    if out != exp["outcome"]:
        return {"clause": "exit-code-of-first-terminating-condition", "detail": {"got": out, "expected": exp["outcome"], "decider": info["decider"]}}
    nf = sum(1 for r in obs["delivered"] if r[0] == "F")
    if case["step"] == "optimizer" and case.get("maxf") is not None and _cache_respecting(case) and not case.get("nested"):
        B = max([1] + [r["batch"] for r in case["script"]])
        if nf > case["maxf"] + B - 1:
            return {"clause": "budget-exceeded", "detail": {"function_results": nf, "max_functions": case["maxf"], "largest_batch": B}}
    if obs["delivered"] != exp["delivered"] or obs["events"] != exp["events"]:
        clause = "results-delivered-before-too-few" if exp["outcome"] == ["exit", EXIT["TOO_FEW"]] else "delivered-results-and-events"
        return {"clause": clause, "detail": {"got": [obs["delivered"], obs["events"]], "expected": [exp["delivered"], exp["events"]],
                                             "decider": info["decider"]}}
    if not obs.get("transformed_ok", True):
        return {"clause": "transformed-results-missing", "detail": None}
    if obs["aborted"] != (exp["outcome"] == ["exit", EXIT["USER_ABORT"]]):
        return {"clause": "plan-aborted-flag", "detail": obs["aborted"]}
    return None


def known_signature(case, obs, violation):
    """C14:abort-inside-calculate -- the too-few decision was taken by a filter or estimator inside
    calculate and the sole discrepancy is the missing delivery of that evaluation's results."""
    if case.get("nested"):
        return None
    exp, info = expected(case)
    if info["decider"] not in ("filter", "estimator"):
        return None
    if violation is None or violation.get("clause") != "results-delivered-before-too-few":
        return None
    missing = info["inside_results"]
    n = len(missing)
    if obs["outcome"] != exp["outcome"] or obs["outcome"] != ["exit", EXIT["TOO_FEW"]]:
        return None
    if exp["delivered"][len(exp["delivered"]) - n:] != missing or obs["delivered"] != exp["delivered"][: len(exp["delivered"]) - n]:
        return None
    tail = 1  # the FINISHED step event
    ev = exp["events"]
    if ev[-1 - tail] != EV["FE"] or obs["events"] != ev[: -1 - tail] + ev[-tail:]:
        return None
    if obs["aborted"] or not obs.get("transformed_ok", True):
        return None
    return "C14:abort-inside-calculate"


# ---------------------------------------------------------------------------------------------
# generators
# ---------------------------------------------------------------------------------------------
FILTERS_R = {
    1: [None, ["sort-objective", 0, 0], ["cvar-objective", 0.5], ["cvar-constraint", 1.0], ["sort-constraint", 0, 0]],
    2: [None, ["sort-objective", 0, 0], ["sort-objective", 1, 1], ["sort-constraint", 0, 1], ["sort-constraint", 1, 1],
        ["cvar-objective", 0.5], ["cvar-objective", 0.75], ["cvar-constraint", 0.25], ["cvar-constraint", 1.0]],
    3: [None, ["sort-objective", 1, 2], ["sort-constraint", 2, 2], ["sort-objective", 0, 1], ["cvar-objective", 0.25],
        ["cvar-constraint", 0.75], ["cvar-objective", 1.0]],
}
TRANSFORMS = ["none", "variables", "objectives", "constraints", "all"]
REQS = [("F", 0, 0), ("G", 0, 0), ("FG", 0, 0), ("F", 0, 2), ("F", 1, 0), ("G", 1, 0), ("FG", 1, 0)]


def _subsets(n):
    for bits in itertools.product([False, True], repeat=n):
        yield list(bits)


def _all_faults(kind, batch, R, P, full):
    """Every fault of one evaluation: exceptions and every (vector, realization)/(realization, perturbation) NaN subset."""
    yield {"exc": "raise"}
    yield {"exc": "abort"}
    nv = max(1, batch)
    if kind == "F":
        for bits in _subsets(nv * R):
            if any(bits):
                yield {"fm": [bits[v * R:(v + 1) * R] for v in range(nv)]}
        return
    fms = list(_subsets(R))
    pms = list(_subsets(R * P))
    if not full:
        pms = [b for b in pms if sum(b) <= 2 or all(b)]
    for fb in fms:
        for pb in pms:
            if any(fb) or any(pb):
                yield {"fm": [fb], "pm": [pb[r * P:(r + 1) * P] for r in range(R)]}


def _mk(step, R, P, rmin, pmin, allow, maxf, filt, est, tr, order, script):
    # finite variable bounds / a linear constraint give the results a ConstraintInfo also when functions is None;
    # derived from the other fields so that the generator streams stay aligned
    h = (R + 3 * P + 5 * rmin + 7 * len(script) + 11 * TRANSFORMS.index(tr) + (13 if filt else 0) + (17 if allow else 0))
    return {"step": step, "R": R, "P": P, "rmin": rmin, "pmin": pmin, "allow_nan": allow, "maxf": maxf, "filter": filt,
            "estimator": est, "transform": tr, "order": order, "bounds": h % 2 == 0, "linear": h % 3 == 0, "script": script,
            "nested": None}


def _req(kind, pt, batch, fault=None):
    return {"kind": kind, "pt": pt, "batch": batch, "fault": fault}


def _run_length(script):
    n = 0
    for r in script:
        n += max(1, r["batch"]) if r["kind"] == "F" else (1 if r["kind"] == "FG" else 0)
    return n


def _structured(tier, rng):
    """Single-fault scripts: every faulty evaluation index x every fault x configuration sample (or all)."""
    thorough = tier == "thorough"
    maxlen = 3 if thorough else 2
    for R, P in ((1, 1), (2, 1), (2, 2)):
        orders = [list(p) for p in itertools.permutations(range(R))]
        for L in range(1, maxlen + 1):
            for shape in itertools.product(REQS, repeat=L):
                if not thorough and L == 2 and rng.random() < 0.5:
                    continue
                if thorough and L == 3 and rng.random() < 0.85:
                    continue
                for fi in range(L + 1):
                    kind, pt, batch = shape[fi] if fi < L else ("F", 0, 0)
                    faults = [None] if fi == L else list(_all_faults(kind, batch, R, P, thorough))
                    if not thorough and len(faults) > 12:
                        faults = faults[:2] + rng.sample(faults[2:], 10 if L == 1 else 5)
                    elif thorough and len(faults) > 40 and L > 1:
                        faults = faults[:2] + rng.sample(faults[2:], 30 if L == 2 else 8)
                    for fault in faults:
                        script = [_req(k, p, b, fault if i == fi else None) for i, (k, p, b) in enumerate(shape)]
                        nconf = (6 if thorough else 3) if fi < L else 2
                        for _ in range(nconf):
                            yield _mk("optimizer", R, P, rng.randint(0, R), rng.randint(1, P), rng.random() < 0.5,
                                      rng.choice([None] + list(range(1, _run_length(script) + 2))),
                                      rng.choice(FILTERS_R[R]) if rng.random() < 0.6 else None,
                                      "stddev" if rng.random() < 0.35 else "mean", rng.choice(TRANSFORMS),
                                      rng.choice(orders), script)


def _budget_sweep(tier, rng):
    """Fault-free and single-fault scripts x every max_functions value up to the unconstrained run length (+1)."""
    maxlen = 4 if tier == "thorough" else 3
    for L in range(1, maxlen + 1):
        shapes = list(itertools.product(REQS[:4], repeat=L))
        cap = 40 if tier == "quick" else 160
        if len(shapes) > cap:
            shapes = rng.sample(shapes, cap)
        for shape in shapes:
            script = [_req(k, p, b) for (k, p, b) in shape]
            for maxf in [None] + list(range(1, _run_length(script) + 2)):
                yield _mk("optimizer", 2, 1, 2, 1, False, maxf, None, "mean", rng.choice(TRANSFORMS), [0, 1], script)


def _evaluator_steps(tier, rng):
    thorough = tier == "thorough"
    for R in (1, 2, 3):
        orders = [list(p) for p in itertools.permutations(range(R))]
        for batch in (0, 1, 2):
            faults = [None] + list(_all_faults("F", batch, R, 1, True))
            for fault in faults:
                for filt in FILTERS_R[R]:
                    for est in ("mean", "stddev"):
                        for rmin in range(R + 1):
                            if not thorough and rng.random() < (0.8 if R == 3 or batch == 2 else 0.5):
                                continue
                            yield _mk("evaluator", R, 1, rmin, 1, False, None, filt, est, rng.choice(TRANSFORMS),
                                      rng.choice(orders), [_req("F", rng.choice([0, 1]), batch, fault)])


def _random_fault(rng, kind, batch, R, P):
    u = rng.random()
    if u < 0.08:
        return {"exc": "raise"}
    if u < 0.16:
        return {"exc": "abort"}
    if u < 0.45:
        return None
    q = rng.choice([0.15, 0.4, 0.7, 1.0])
    nv = max(1, batch)
    f = {"fm": [[rng.random() < q for _ in range(R)] for _ in range(nv)]}
    if kind != "F":
        q2 = rng.choice([0.0, 0.3, 0.7, 1.0])
        f["pm"] = [[rng.random() < q2 for _ in range(P)] for _ in range(R)]
    return f


def _random(tier, rng):
    n = 700 if tier == "quick" else 25000
    for _ in range(n):
        R = rng.choice([1, 2, 2, 3, 3, 4])
        P = rng.choice([1, 2, 3])
        L = rng.randint(1, 5)
        script = []
        for _ in range(L):
            kind, pt, batch = rng.choice(REQS)
            if kind == "F" and rng.random() < 0.2:
                batch = rng.choice([1, 2, 3])
            script.append(_req(kind, pt, batch, _random_fault(rng, kind, batch, R, P)))
        filt = None
        if rng.random() < 0.55:
            m = rng.choice(["sort-objective", "sort-constraint", "cvar-objective", "cvar-constraint"])
            if m.startswith("sort"):
                a = rng.randrange(R)
                filt = [m, a, rng.randrange(a, R)]
            else:
                filt = [m, rng.choice([0.25, 0.5, 0.75, 1.0])]
        order = list(range(R))
        rng.shuffle(order)
        yield _mk("optimizer", R, P, rng.randint(0, R), rng.randint(1, P), rng.random() < 0.5,
                  rng.choice([None, None] + list(range(1, _run_length(script) + 2))), filt,
                  "stddev" if rng.random() < 0.3 else "mean", rng.choice(TRANSFORMS), order, script)


def _nested(tier, rng):
    """Outer optimizer step with a nested optimization: inner runs that fail at their first evaluation (no result ->
    NESTED_OPTIMIZER_FAILED), produce results, are stopped by their budget, raise or abort; outer faults and budgets."""
    n = 350 if tier == "quick" else 6000
    for _ in range(n):
        R = rng.choice([1, 2, 2, 3])
        P = rng.choice([1, 2])
        L = rng.randint(1, 3)
        outer, scripts = [], []
        first_bad = rng.random() < 0.45          # the very first inner evaluation fails: the tracker stays empty
        for i in range(L):
            kind = rng.choice(["F", "F", "FG"])
            outer.append(_req(kind, rng.choice([0, 1]), 0, _random_fault(rng, kind, 0, R, P) if rng.random() < 0.4 else None))
            sc = []
            for j in range(rng.randint(1, 3)):
                k2, pt, batch = rng.choice(REQS)
                fault = None
                u = rng.random()
                if i == 0 and j == 0 and first_bad:
                    fault = {"fm": [[True] * R for _ in range(max(1, batch))]}
                    if k2 != "F":
                        fault["pm"] = [[False] * P for _ in range(R)]
                elif u < 0.3:
                    fault = _random_fault(rng, k2, batch, R, P)
                sc.append(_req(k2, pt, batch, fault))
            scripts.append(sc)
        rmin = rng.randint(0, R)
        order = list(range(R))
        rng.shuffle(order)
        c = _mk("optimizer", R, P, rmin, rng.randint(1, P), rng.random() < 0.5,
                rng.choice([None, None] + list(range(1, L + 2))), None, "mean", "none", order, outer)
        c["nested"] = {"scripts": scripts, "maxf": rng.choice([None, None, 1, 2]), "rmin": rng.randint(0, R)}
        yield c


def gen_cases(tier, rng):
    yield from _nested(tier, rng)
    yield from _budget_sweep(tier, rng)
    yield from _evaluator_steps(tier, rng)
    yield from _structured(tier, rng)
    yield from _random(tier, rng)


# ---------------------------------------------------------------------------------------------
# Gallina printer
# ---------------------------------------------------------------------------------------------
def _fault_term(case, req):
    f = req.get("fault") or {}
    if f.get("exc") == "raise":
        return "FRaise"
    if f.get("exc") == "abort":
        return "FAbort"
    fm, pm = _masks(case, req)
    return f"(FMasks {cq.lst(cq.bs(x) for x in fm)} {cq.lst(cq.bs(x) for x in pm)})"


def _req_term(case, req):
    k = {"F": "KF", "G": "KG", "FG": "KFG"}[req["kind"]]
    return f"(Build_req {k} {cq.nat(req['pt'])} {cq.nat(req['batch'])} {_fault_term(case, req)})"


def _filter_term(f):
    if f is None:
        return "NoFilter"
    if f[0].startswith("sort"):
        return f"(SortF {cq.nat(f[1])} {cq.nat(f[2])})"
    return f"(CvarF {cq.q(f[1])})"


def cfg_term(case):
    est = "Stddev" if case.get("estimator") == "stddev" else "Mean"
    return (f"(Build_cfg {cq.nat(case['R'])} {cq.nat(case['rmin'])} {cq.nat(case['pmin'])} {cq.b(case['allow_nan'])} "
            f"{cq.opt(case.get('maxf'), cq.nat)} {_filter_term(case.get('filter'))} {est} {cq.nats(case['order'])})")


def _res_term(r):
    return f"(Build_res {'RF' if r[0] == 'F' else 'RG'} {cq.b(r[1])} {cq.b(r[2])})"


def coq_case(case, obs):
    out = obs["outcome"]
    o = f"(OExit {cq.z(out[1])})" if out[0] == "exit" else f"(OExc {cq.s(out[1])})"
    nested = "None"
    if case.get("nested"):
        ic = inner_case(case)
        nested = f"(Some ({cfg_term(ic)}, {cq.lst(cq.lst(_req_term(ic, r) for r in sc) for sc in case['nested']['scripts'])}))"
    return (f"(Build_case {cq.b(case['step'] == 'evaluator')} {cfg_term(case)} "
            f"{cq.lst(_req_term(case, r) for r in case['script'])} {nested} {o} "
            f"{cq.lst(_res_term(r) for r in obs['delivered'])} {cq.zs(obs['events'])})")


# ---------------------------------------------------------------------------------------------
# evidence helpers, shrinking, search
# ---------------------------------------------------------------------------------------------
def _has_fault(case):
    return any(r.get("fault") for r in case["script"])


def nontrivial(case, obs):
    return _has_fault(case) or obs["outcome"] == ["exit", EXIT["MAX_FUNCTIONS"]]


def features(case, obs):
    _, info = expected(case)
    out = obs["outcome"]
    return {"step": case["step"] if not case.get("nested") else "optimizer+nested", "R": case["R"], "P": case["P"], "len": len(case["script"]),
            "filter": (case.get("filter") or ["none"])[0], "estimator": case.get("estimator"), "transform": case["transform"],
            "bounds": bool(case.get("bounds")), "linear": bool(case.get("linear")),
            "outcome": out[1] if out[0] == "exc" else {1: "TOO_FEW", 2: "MAX_FUNCTIONS", 3: "NESTED_FAILED", 4: "USER_ABORT", 5: "OPT_FINISHED",
                                                       6: "EVAL_FINISHED"}.get(out[1], out[1]),
            "decider": info["decider"], "rmin0": case["rmin"] == 0, "maxf": case.get("maxf") is not None}


def shrink(case):
    s = case["script"]
    if case.get("nested"):
        n = case["nested"]
        for k in range(len(s) - 1, 0, -1):
            yield {**case, "script": s[:k], "nested": {**n, "scripts": n["scripts"][:k]}}
        for i, sc in enumerate(n["scripts"]):
            if len(sc) > 1:
                yield {**case, "nested": {**n, "scripts": n["scripts"][:i] + [sc[:-1]] + n["scripts"][i + 1:]}}
        return
    for k in range(len(s)):
        if len(s) > 1:
            yield {**case, "script": s[:k] + s[k + 1:]}
    for k, r in enumerate(s):
        if r.get("fault") and k < len(s) - 1:
            yield {**case, "script": s[:k + 1]}
    if case["transform"] != "none":
        yield {**case, "transform": "none"}
    if case.get("bounds"):
        yield {**case, "bounds": False}
    if case.get("linear"):
        yield {**case, "linear": False}
    if case.get("filter") is not None:
        yield {**case, "filter": None}
    if case.get("estimator") == "stddev":
        yield {**case, "estimator": "mean"}
    if case.get("maxf") is not None:
        yield {**case, "maxf": None}


def search(rng, case):
    if case is None:
        yield from itertools.islice(_random("quick", rng), 0, 600)
        return
    yield from shrink(case)
    if case.get("nested"):
        yield from itertools.islice(_nested("quick", rng), 0, 300)
        return
    for tr in TRANSFORMS:
        yield {**case, "transform": tr}
    for rmin in range(case["R"] + 1):
        yield {**case, "rmin": rmin}
    yield from itertools.islice(_random("quick", rng), 0, 300)


MANIFEST = {
    "level_text": ("Machine-checked Coq proof about the executable exit-code machine of an optimizer / evaluator step (Model/Step.v: budget "
                   "check, evaluator call, gradient cache, filter / threshold / estimator too-few decisions, delivery of results, events), for "
                   "every request script, fault script, threshold, filter, estimator and budget: the outcome is decided by the first request "
                   "that does not run to completion and each documented code arises exactly in its case (C14_exit_classification, "
                   "C14_first_stop_observation, C14_evaluator_step), delivered function results never exceed max_functions + (batch - 1) "
                   "(C14_budget, C14_budget_serial, C14_budget_counted), the results of the failing evaluation and its FINISHED_EVALUATION are "
                   "delivered before TOO_FEW_REALIZATIONS (C14_results_before_abort), evaluator exceptions propagate and nothing else raises "
                   "(C14_exceptions_propagate), and the model's codes/events are members of the enums regenerated from the source "
                   "(C14_codes_documented).  The machine is tied to the code on every run by an in-Coq correspondence over scripted real Plan "
                   "runs with a fault-injecting evaluator (outcome, delivered results and event list compared exactly)."),
    "level_note": ("Trusted / modelled, not verified: the optimizer back-end is a script of requests (SciPy back-ends are C07/C08); the user's "
                   "evaluator is a fault script; realization weights are positive and equal; filters rank by a fixed order given in the case; "
                   "transforms are exercised by the real code only (the compared facts must not depend on them).  Known finding "
                   "C14:abort-inside-calculate (results of an evaluation aborted inside calculate are not delivered) is reported as "
                   "KNOWN-FINDING; the model encodes the property-satisfying behaviour.  Trusted: Coq kernel + VM, translator for the enums, "
                   "the scripted optimizer plug-in / fault-injecting evaluator / recording observer of harness/props/C14.py.  All theorems "
                   "print 'Closed under the global context'."),
    "technique": ("Coq proof (induction over request scripts of an executable Gallina state machine; first-stop classification, budget "
                  "invariant) + in-Coq differential correspondence with scripted real Plan runs under injected faults"),
    "design_ref": "DESIGN.md section 4, C14",
}
