"""C14 -- every run ends with the documented exit code under any failure pattern.

Correspondence: real `Plan`s with one optimizer step (driven by a scripted optimizer plug-in that issues
F / G / FG requests, single vectors or batches, through the OptimizerCallback), optionally with nested
optimizations to depth 3, optionally run through `BasicOptimizer`, or one evaluator step, and a
fault-injecting evaluator (NaN masks per (vector, realization) and per (realization, perturbation), placed in
the first objective, the second objective, the constraint or everywhere; raising
OptimizationAborted(USER_ABORT); raising an exception of a class chosen by the case).  The outcome (exit code
or exception class), the delivered results (kind, functions/gradients present, all realizations failed), the
event list, the number of evaluator calls and the Plan.aborted flags of every plan level are compared exactly
with Model/Step.v inside Coq; the property's clauses are also evaluated directly on the observation.
"""
from __future__ import annotations

import itertools

import coqio as cq

ID = "C14"
THEOREM_FILE = "Props/C14.v"
CHK_MODULE = "Check.Chk_C14"
CASE_TYPE = "Chk_C14.case"
CHECK_FN = "Chk_C14.check_case"
HEADER = "From Ropt Require Import Model.Step."
SHARD_SIZE = 1500
PARALLEL = True
CASE_TIMEOUT = 60
EXHAUSTIVE = {"quick": False, "thorough": True}
ALLOWED_AXIOMS: list[str] = []

RULE = ("structured enumeration + seeded sampling of scripted runs: request scripts of length <= 3 over {F, G, FG, F-batch-2} at "
        "two points, one faulty evaluation (every index) with every failing (vector, realization) / (realization, perturbation) "
        "subset for R,P <= 2 (thorough: exhaustive; quick: all subsets for the single-evaluation scripts + a seeded sample of the "
        "rest), evaluator exceptions (17 classes incl. BaseException subclasses, ropt's own PlanAborted / ConfigError, OSError and five "
        "of its subclasses - also with optimizer.stdout / stderr redirected, where the evaluation runs inside _Redirector.suspend) and "
        "evaluator-raised aborts, both step kinds and BasicOptimizer, no filter / sort-objective / sort-constraint / "
        "cvar-objective / cvar-constraint, mean / stddev, no / variable / objective / constraint / all transforms, "
        "realization_min_success 0..R, perturbation_min_success 1..P, allow_nan on/off, max_functions None and every value up to "
        "the run length + 1 with batches of 1-3 vectors, one or two objectives with the NaN of a failed row placed in the first "
        "objective only / the second only / the constraint only / everywhere, equal or unequal positive realization weights, "
        "metadata and explicit start vectors, a variable mask, a configured filter nothing refers to, optimizer.stdout redirection, the "
        "same step object run twice; a stream of gradient evaluations whose realizations "
        "all fall below perturbation_min_success with realization_min_success = 0; nested optimizations of depth 2 (random) and "
        "depth 3 (every leaf position x {abort, exception, all-failed, too-few} x tracker empty / holding a result); plus a random "
        "stream with R,P <= 3 and several faulty evaluations.  Non-trivial = the run contains at least one fault (NaN, exception, "
        "abort) or is stopped by the budget; distinct = distinct case dictionaries.")
ASSUMPTIONS = [
    "the optimizer back-end is a script of requests (kind, point, batch); real back-ends (SciPy) are covered by C07/C08",
    "the evaluator is deterministic given (call index, row): NaN masks, exceptions and aborts come from the fault script only",
    "realization weights are positive or zero (at least one positive); a realization filter, when configured, applies to every "
    "objective and the constraint",
    "filters rank realizations by a fixed per-realization offset (the `order` of the case), far larger than any perturbation effect",
    "CVaR percentiles are dyadic (1/4, 1/2, 3/4, 1) and R <= 4 so that int(p*n) and p - n_var/n are exact in floating point",
    "requests that trigger a nested run are single-vector F / FG requests; nested runs use no transforms, filters or stddev "
    "(known findings C11:explicit-step-variables, C14:abort-inside-calculate)",
]
TRUSTED = [
    "the scripted optimizer plug-in, fault-injecting evaluator and recording observer of harness/props/C14.py",
    "transforms (variable / objective / constraint scalers), the number of objectives, the position of the NaN inside a failed row, "
    "the realization weights, metadata, explicit start vectors, a variable mask, unused filter entries, output redirection and merged gradient estimation are "
    "exercised by the real code only; the model does not have them "
    "(the compared facts - outcome, results delivered, events - must not depend on them)",
    "the BasicOptimizer runs register the scripted optimizer with the plug-in manager of the object's private OptimizerContext",
]

KINDS = ("F", "G", "FG")


# ---------------------------------------------------------------------------------------------
# real-code driver
# ---------------------------------------------------------------------------------------------
_ENV = None
# classes of the exception the evaluator raises on a "raise" fault (the case's "excls"; default ValueError)
EXC_CLASSES = ["ValueError", "RuntimeError", "KeyboardInterrupt", "AssertionError", "ZeroDivisionError", "UnboundLocalError",
               "TypeError", "Boom", "PlanAborted", "ConfigError", "SystemExit",
               "OSError", "FileNotFoundError", "PermissionError", "ConnectionError", "TimeoutError", "BrokenPipeError"]
OS_CLASSES = EXC_CLASSES[-6:]


def _env():
    """Build (once per process) the plug-in classes that need ropt imports."""
    global _ENV
    import ropt
    if _ENV is not None and _ENV["ropt"] is ropt:      # re-built when the runner re-imports ropt (forked workers)
        return _ENV
    import numpy as np
    from ropt.plugins.optimizer.base import Optimizer, OptimizerPlugin
    from ropt.transforms.base import NonLinearConstraintTransform, ObjectiveTransform

    class Scripted(Optimizer):
        queue: list = []         # specification of the optimizer instance created next
        evaluator = None         # the fault-injecting evaluator of the current run

        def __init__(self, config, cb):
            self.cb = cb
            self.spec = Scripted.queue.pop(0)

        def start(self, x0):
            # with a variable mask the back-end works on the free variables only (the first one)
            nvar = 1 if self.spec["case14"].get("mask") else x0.size
            ev = Scripted.evaluator
            saved = (ev.pending, ev.pcase)         # a nested run must not disturb the pending outer request
            try:
                for i, req in enumerate(self.spec["script"]):
                    def point(p):
                        x = np.zeros(nvar)
                        x[0] = 0.25 * p
                        return x
                    if req["batch"] > 0:
                        x = np.vstack([point(req["pt"] + i) for i in range(req["batch"])])
                    else:
                        x = point(req["pt"])
                    # each request leads to exactly one evaluator call: announce its fault.  A nested run started by this
                    # request saves and restores the announcement; its specification is handed to the optimizer that the
                    # nested step creates next (and taken back when the budget check stops this request before that).
                    ev.pending, ev.pcase = req.get("fault"), self.spec["case14"]
                    subs = self.spec.get("subs")
                    child = subs[i] if subs else None
                    if child is not None:
                        Scripted.queue.insert(0, child)
                    try:
                        self.cb(x, return_functions=req["kind"] in ("F", "FG"), return_gradients=req["kind"] in ("G", "FG"))
                    finally:
                        if child is not None:
                            Scripted.queue[:] = [q for q in Scripted.queue if q is not child]
            finally:
                ev.pending, ev.pcase = saved

        @property
        def allow_nan(self):
            return bool(self.spec["allow_nan"])

        @property
        def is_parallel(self):
            return any(r["batch"] > 0 for r in self.spec["script"])

    class ScriptedPlugin(OptimizerPlugin):
        def create(self, config, cb):
            return Scripted(config, cb)

        def is_supported(self, method):
            return method.lower() == "run"

    class ObjScaler(ObjectiveTransform):
        def __init__(self, s):
            self.s = s

        def to_optimizer(self, objectives):
            return objectives / self.s

        def from_optimizer(self, objectives):
            return objectives * self.s

    class ConScaler(NonLinearConstraintTransform):
        def __init__(self, s):
            self.s = s

        def bounds_to_optimizer(self, lower_bounds, upper_bounds):
            return lower_bounds / self.s, upper_bounds / self.s

        def to_optimizer(self, constraints):
            return constraints / self.s

        def from_optimizer(self, constraints):
            return constraints * self.s

        def nonlinear_constraint_diffs_from_optimizer(self, lower_diffs, upper_diffs):
            return lower_diffs * self.s, upper_diffs * self.s

    class Boom(Exception):
        pass

    _ENV = {"ropt": ropt, "Scripted": Scripted, "ScriptedPlugin": ScriptedPlugin, "ObjScaler": ObjScaler, "ConScaler": ConScaler,
            "Boom": Boom}
    return _ENV


def _exception(name):
    import builtins
    import ropt.exceptions as rex
    if name == "Boom":
        return _env()["Boom"]("injected evaluator failure")
    if hasattr(rex, name):
        return getattr(rex, name)("injected evaluator failure")
    return getattr(builtins, name)("injected evaluator failure")


def make_transforms(name, nobj=1):
    import numpy as np
    from ropt.transforms import OptModelTransforms, VariableScaler
    env = _env()
    if name == "none":
        return None
    kw = {}
    if name in ("variables", "all"):
        kw["variables"] = VariableScaler(np.array([2.0, 4.0]), np.array([0.5, -0.25]))
    if name in ("objectives", "all"):
        kw["objectives"] = env["ObjScaler"](np.array([2.0, 4.0][:nobj]))
    if name in ("constraints", "all"):
        kw["nonlinear_constraints"] = env["ConScaler"](np.array([4.0]))
    return OptModelTransforms(**kw)


def make_config(case, maxf="case"):
    R, P = case["R"], case["P"]
    nobj = case.get("nobj", 1)
    cfg = {
        "variables": {"initial_values": [0.0, 0.0]},
        "objectives": {"weights": [1.0, 0.5][:nobj]},
        "nonlinear_constraints": {"lower_bounds": [-float("inf")], "upper_bounds": [1000.0]},
        "realizations": {"weights": list(case.get("weights") or [1.0] * R), "realization_min_success": case["rmin"]},
        "gradient": {"number_of_perturbations": P, "perturbation_min_success": case["pmin"]},
        "optimizer": {"method": "verifscript/run"},
    }
    if case.get("bounds"):
        cfg["variables"]["lower_bounds"] = [-10.0, -10.0]
        cfg["variables"]["upper_bounds"] = [10.0, 20.0]
    if case.get("linear"):
        cfg["linear_constraints"] = {"coefficients": [[1.0, 1.0]], "lower_bounds": [-50.0], "upper_bounds": [50.0]}
    mf = case.get("maxf") if maxf == "case" else maxf
    if mf is not None:
        cfg["optimizer"]["max_functions"] = mf
    f = case.get("filter")
    if f is not None:
        if f[0].startswith("sort"):
            opts = {"sort": [0] if f[0] == "sort-objective" else 0, "first": f[1], "last": f[2]}
        else:
            opts = {"sort": [0] if f[0] == "cvar-objective" else 0, "percentile": f[1]}
        cfg["realization_filters"] = [{"method": f[0], "options": opts}]
        cfg["objectives"]["realization_filters"] = [0] * nobj
        cfg["nonlinear_constraints"]["realization_filters"] = [0]
    if case.get("unused_filter"):
        # a configured filter that no objective or constraint refers to (it would select nothing): must have no effect
        cfg.setdefault("realization_filters", []).append({"method": "sort-objective", "options": {"sort": [0], "first": R - 1, "last": R - 1}})
        cfg["objectives"].setdefault("realization_filters", [-1] * nobj)
        cfg["nonlinear_constraints"].setdefault("realization_filters", [-1])
    if case.get("estimator", "mean") == "stddev":
        cfg["function_estimators"] = [{"method": "stddev"}]
    if case.get("merge"):
        cfg["gradient"]["merge_realizations"] = True       # one least-squares estimate over all realizations' perturbations
    if case.get("mask"):
        cfg["variables"]["mask"] = [True, False]
    if case.get("redirect"):
        cfg["optimizer"]["stdout"] = case["redirect"]
        if case.get("redirect_err"):
            cfg["optimizer"]["stderr"] = case["redirect_err"]
    return cfg


class FaultEvaluator:
    """Deterministic evaluator: objective = |x - 0.5|^2 + 10 * rank offset of the realization (a second objective, when
    configured, is the same value + 1); the constraint equals the objective; the pending fault (announced by the scripted
    optimizer / the driver just before the request) decides NaNs / exceptions.  `nanloc` of the configuration says where
    the NaN of a failed row is put: everywhere, first objective only, second objective only, constraint only.
    Records, per call, what it actually returned: failed function rows per vector and successful perturbations per
    realization (the oracle judges the delivered results against this record, not against the script)."""

    def __init__(self):
        self.pending = None      # fault of the next call
        self.pcase = None        # C14-style configuration of the step that issues the call
        self.calls = 0
        self.record = []         # per call: {"f": [[failed flag per realization] per vector], "p": [[ok count] per realization]}

    def __call__(self, variables, ctx):
        import numpy as np
        from ropt.enums import OptimizerExitCode
        from ropt.evaluator import EvaluatorResult
        from ropt.exceptions import OptimizationAborted
        self.calls += 1
        f = self.pending
        pc = self.pcase
        if f is not None and f.get("exc") == "raise":
            self.record.append({"exc": "raise"})
            raise _exception(pc.get("excls") or "ValueError")
        if f is not None and f.get("exc") == "abort":
            self.record.append({"exc": "abort"})
            raise OptimizationAborted(exit_code=OptimizerExitCode.USER_ABORT)
        order = pc["order"]
        nobj = pc.get("nobj", 1)
        nanloc = pc.get("nanloc", "all")
        R = pc["R"]
        rank = {r: k for k, r in enumerate(order)}
        reals = np.asarray(ctx.realizations)
        perts = None if ctx.perturbations is None else np.asarray(ctx.perturbations)
        n = variables.shape[0]
        obj = np.zeros((n, nobj))
        con = np.zeros((n, 1))
        seen_f = {}
        rec = {"f": [], "p": None}
        for row in range(n):
            r = int(reals[row])
            val = float(((variables[row] - 0.5) ** 2).sum()) + 10.0 * rank[r]
            obj[row, :] = [val, val + 1.0][:nobj]
            con[row, 0] = val
            p = -1 if perts is None else int(perts[row])
            bad = False
            if p < 0:
                v = seen_f.get(r, 0)
                seen_f[r] = v + 1
                while len(rec["f"]) <= v:
                    rec["f"].append([False] * R)
                fm = (f or {}).get("fm") or []
                bad = v < len(fm) and bool(fm[v][r])
                rec["f"][v][r] = bad
            else:
                if rec["p"] is None:
                    rec["p"] = [0] * R
                pm = (f or {}).get("pm") or []
                bad = r < len(pm) and bool(pm[r][p])
                if not bad:
                    rec["p"][r] += 1
            if bad:
                if nanloc in ("all", "obj0"):
                    obj[row, 0] = np.nan
                if nanloc == "all" or (nanloc == "obj1" and nobj > 1):
                    obj[row, nobj - 1] = np.nan
                if nanloc in ("all", "con") or (nanloc == "obj1" and nobj == 1):
                    con[row, 0] = np.nan
        self.record.append(rec)
        return EvaluatorResult(objectives=obj, constraints=con)


def _res_tuple(item):
    import numpy as np
    from ropt.results import FunctionResults
    allf = bool(np.all(item.realizations.failed_realizations))
    if isinstance(item, FunctionResults):
        return ["F", item.functions is not None, allf]
    return ["G", item.gradients is not None, allf]


# ---- the run tree -----------------------------------------------------------------------------------
def root(case):
    """The run tree of an optimizer-step case: node = {"cfg": C14-style configuration, "script": requests,
    "subs": per request the node of the nested run it triggers (None: no nested optimization)}.
    case["tree"] = {"rmin", "maxf", "script", "subs"} nodes for the levels below the root; the older
    case["nested"] = {"scripts", "maxf", "rmin"} is one nested level."""
    def node(spec, script):
        cfg = {**case, "rmin": spec.get("rmin", case["rmin"]), "maxf": spec.get("maxf"), "nested": None, "tree": None,
               "step": "optimizer", "script": script}
        subs = spec.get("subs") or [None] * len(script)
        return {"cfg": cfg, "script": script, "subs": [None if x is None else node(x, x["script"]) for x in subs]}
    if case.get("tree"):
        subs = [None if x is None else node(x, x["script"]) for x in case["tree"]]
    elif case.get("nested"):
        n = case["nested"]
        subs = [node({"rmin": n.get("rmin", case["rmin"]), "maxf": n.get("maxf")}, sc) for sc in n["scripts"]]
    else:
        subs = [None] * len(case["script"])
    return {"cfg": case, "script": case["script"], "subs": subs}


def is_nested(case):
    return bool(case.get("tree") or case.get("nested"))


def depth(node):
    return max([0] + [1 + depth(x) for x in node["subs"] if x is not None])


def spec_of(node, allow_nan):
    """Specification of one scripted optimizer run (and, per request, of the nested run it triggers)."""
    return {"script": node["script"], "allow_nan": allow_nan, "case14": node["cfg"], "config": make_config(node["cfg"]),
            "nested": any(x is not None for x in node["subs"]),
            "subs": [None if x is None else spec_of(x, allow_nan) for x in node["subs"]]}


def run_impl(case):
    import warnings
    warnings.simplefilter("ignore")
    from ropt.enums import EventType
    from ropt.plan import BasicOptimizer, OptimizerContext, Plan
    from ropt.plugins import PluginManager
    env = _env()
    Scripted = env["Scripted"]
    script = case["script"]
    evaluator = FaultEvaluator()
    Scripted.evaluator = evaluator
    delivered, groups, events, shapes_ok, meta_ok = [], [], [], [True], [True]
    nobj = case.get("nobj", 1)
    metadata = {"tag": 7, "who": ["verif"]} if case.get("metadata") else None

    def on_results(e):
        res = e.data["results"]
        if case["transform"] != "none":
            tr = e.data.get("transformed_results")
            if tr is None or len(tr) != len(res):
                shapes_ok[0] = False
        if metadata is not None and e.source == top_step[0]:
            for r in res:
                if r.metadata != metadata or r.metadata is metadata:
                    meta_ok[0] = False
        delivered.extend(_res_tuple(r) for r in res)
        groups.append(len(res))

    def on_event(e):
        events.append(int(e.event_type.value))

    top_step = [None]
    transforms = make_transforms(case["transform"], nobj)
    tmp, fds_before = None, None
    if case.get("redirect"):
        # optimizer.stdout: the optimizer's output is redirected to a file, evaluations run with the redirection suspended
        import os
        import tempfile
        fd, tmp = tempfile.mkstemp(prefix="c14-stdout-", dir="/tmp")
        os.close(fd)
        tmp2 = None
        if case["redirect"] == "both":                 # optimizer.stderr to a file of its own
            fd, tmp2 = tempfile.mkstemp(prefix="c14-stderr-", dir="/tmp")
            os.close(fd)
        fds_before = set(os.listdir("/proc/self/fd"))
        case = {**case, "redirect": tmp, "redirect_err": tmp2}
    cfg = make_config(case)
    start = [0.25, 0.0] if case.get("explicit") else None
    plans = []
    second = None
    try:
        if case["step"] == "basic":
            Scripted.queue[:] = [{"script": script, "allow_nan": case["allow_nan"], "case14": case}]
            opt = BasicOptimizer(cfg, evaluator, transforms=transforms)
            octx = opt._optimizer_context
            octx.plugin_manager.add_plugin("optimizer", "verifscript", env["ScriptedPlugin"]())
            for et in EventType:
                octx.add_observer(et, on_event)
            opt.set_results_callback(lambda res: None)
            octx.add_observer(EventType.FINISHED_EVALUATION, on_results)
            opt.run()
            code = opt.exit_code
            basic = {"has_results": opt.results is not None,
                     "variables_ok": (opt.variables is None) == (opt.results is None)}
            outcome = ["exit", int(code.value)]
        else:
            pm = PluginManager()
            pm.add_plugin("optimizer", "verifscript", env["ScriptedPlugin"]())
            ctx = OptimizerContext(evaluator=evaluator, plugin_manager=pm)
            ctx.add_observer(EventType.FINISHED_EVALUATION, on_results)
            for et in EventType:
                ctx.add_observer(et, on_event)
            plan = Plan(ctx)
            plans.append(plan)
            basic = None
            if case["step"] == "optimizer":
                tree = root(case)
                Scripted.queue[:] = [spec_of(tree, case["allow_nan"])]
                st = plan.add_step("optimizer")
                top_step[0] = st
                kw = {}
                D = depth(tree)
                steps, trackers = {}, {}
                for j in range(1, D + 1):
                    pj = Plan(ctx)
                    plans.append(pj)
                    steps[j] = pj.add_step("optimizer")
                    trackers[j] = pj.add_handler("tracker", sources={steps[j]})

                    def f(p, variables, j=j):
                        spec = Scripted.queue[0]          # the optimizer created next is the one of this nested run
                        kw2 = {"nested_optimization": plans[j + 1]} if spec["nested"] else {}
                        p.run_step(steps[j], config=spec["config"], variables=variables, **kw2)
                        return p.get(trackers[j], "results")

                    pj.add_function(f)
                if D > 0:
                    kw["nested_optimization"] = plans[1]
                if start is not None:
                    kw["variables"] = start
                if metadata is not None:
                    kw["metadata"] = metadata
                code = plan.run_step(st, config=cfg, transforms=transforms, **kw)
                if case.get("repeat") and not plan.aborted:
                    first = {"delivered": list(delivered), "events": list(events), "code": int(code.value)}
                    del delivered[:], groups[:], events[:]
                    calls1 = evaluator.calls
                    Scripted.queue[:] = [spec_of(tree, case["allow_nan"])]
                    code2 = plan.run_step(st, config=cfg, transforms=transforms, **kw)
                    second = {"same": first == {"delivered": list(delivered), "events": list(events), "code": int(code2.value)}}
                    evaluator.calls -= calls1
                    evaluator.record = evaluator.record[calls1:]
            else:
                req = script[0]
                st = plan.add_step("evaluator")
                top_step[0] = st
                if req["batch"] > 0:
                    variables = [[0.25 * (req["pt"] + i), 0.0] for i in range(req["batch"])]
                else:
                    variables = [0.25 * req["pt"], 0.0]
                kw = {"metadata": metadata} if metadata is not None else {}
                evaluator.pending, evaluator.pcase = req.get("fault"), case
                code = plan.run_step(st, config=cfg, transforms=transforms, variables=variables, **kw)
                if case.get("repeat") and not plan.aborted:
                    first = {"delivered": list(delivered), "events": list(events), "code": int(code.value)}
                    del delivered[:], groups[:], events[:]
                    calls1 = evaluator.calls
                    evaluator.pending, evaluator.pcase = req.get("fault"), case
                    code2 = plan.run_step(st, config=cfg, transforms=transforms, variables=variables, **kw)
                    second = {"same": first == {"delivered": list(delivered), "events": list(events), "code": int(code2.value)}}
                    evaluator.calls -= calls1
                    evaluator.record = evaluator.record[calls1:]
            outcome = ["exit", int(code.value)]
    except BaseException as e:  # noqa: BLE001 - the class is the observation
        outcome = ["exc", type(e).__name__]
        basic = None if case["step"] != "basic" else {"has_results": None, "variables_ok": True}
    if tmp is not None:
        import os
        for fd in set(os.listdir("/proc/self/fd")) - fds_before:       # descriptors the redirection left open
            try:
                os.close(int(fd))
            except OSError:
                pass
        for f in (tmp, case.get("redirect_err")):
            try:
                if f:
                    os.unlink(f)
            except OSError:
                pass
    return {"outcome": outcome, "delivered": delivered, "groups": groups, "events": events, "calls": evaluator.calls,
            "aborted": [bool(p.aborted) for p in plans], "transformed_ok": shapes_ok[0], "metadata_ok": meta_ok[0],
            "record": evaluator.record, "second": second, "basic": basic}


# ---------------------------------------------------------------------------------------------
# independent Python oracle: the property's clauses evaluated on the implementation's output
# ---------------------------------------------------------------------------------------------
EXIT = {"TOO_FEW": 1, "MAX_FUNCTIONS": 2, "NESTED_FAILED": 3, "USER_ABORT": 4, "OPT_FINISHED": 5, "EVAL_FINISHED": 6}
EV = {"SE": 1, "FE": 2, "SO": 3, "FO": 4, "SES": 5, "FES": 6}


def _selected(case, failed):
    """Indices with a positive filter weight (None = no filter configured)."""
    f = case.get("filter")
    if f is None:
        return None
    ranked = [r for r in case["order"] if not failed[r]]
    if f[0].startswith("sort"):
        return {r for r in ranked[f[1]: f[2] + 1] if _wpos(case, r)}      # the selected keep their configured weight
    ranked = ranked[::-1]
    n = len(ranked)
    if n == 0:
        return set()
    from fractions import Fraction
    p = Fraction(f[1])
    nv = int(p * n)
    sel = set(ranked[:nv])
    if nv < n and p - Fraction(nv, n) > 0:
        sel.add(ranked[nv])
    return sel


def _wpos(case, r):
    w = case.get("weights")
    return w is None or w[r] > 0


def _nz(case, sel, failed):
    act = [r for r in range(case["R"]) if not failed[r] and (_wpos(case, r) if sel is None else r in sel)]
    return len(act) if act else case["R"]


def _fun_part(case, fm):
    sel = _selected(case, fm)
    if sel is not None and not sel:
        return ("filter",)
    ns = fm.count(False)
    if ns >= case["rmin"]:
        if all(fm):
            return ("res", True, True, sel)
        if case.get("estimator") == "stddev" and _nz(case, sel, fm) < 2:
            return ("estimator",)
        return ("res", True, False, sel)
    return ("res", False, all(fm), sel)


def _grad_part(case, fm, pm, sel):
    fg = [fm[r] or pm[r].count(False) < case["pmin"] for r in range(case["R"])]
    if fg.count(False) >= case["rmin"]:
        if case.get("estimator") == "stddev" and _nz(case, sel, fg) < 2:
            return ("estimator",)
        return ("res", True, all(fg))
    return ("res", False, all(fg))


def _masks(case, req):
    R, P = case["R"], case["P"]
    f = req.get("fault") or {}
    nv = max(1, req["batch"])
    fm = f.get("fm") or [[False] * R for _ in range(nv)]
    pm = f.get("pm") or [[False] * P for _ in range(R)]
    return fm, pm


def _eval_req(case, req, cache):
    """-> (tag, payload, counted, cache') ; tag in raise/abort/inside/results"""
    f = req.get("fault") or {}
    if f.get("exc") == "raise":
        return "raise", None, 0, cache
    if f.get("exc") == "abort":
        return "abort", None, 0, cache
    fm, pm = _masks(case, req)
    kind = req["kind"]
    if kind == "F":
        out = []
        for v in range(max(1, req["batch"])):
            fp = _fun_part(case, fm[v])
            if fp[0] != "res":
                return "inside", (fp[0], [["F", False, all(x)] for x in fm]), 0, cache
            out.append(fp)
        res = [["F", fp[1], fp[2]] for fp in out]
        return "results", res, len(res), (req["pt"], fm[0], out[0][3])
    if kind == "G" and cache is not None and cache[0] == req["pt"]:
        gp = _grad_part(case, cache[1], pm, cache[2])
        if gp[0] != "res":
            return "inside", (gp[0], [["G", False, False]]), 0, cache
        return "results", [["G", gp[1], gp[2]]], 0, cache
    fp = _fun_part(case, fm[0])
    if fp[0] != "res":
        return "inside", (fp[0], [["F", False, all(fm[0])], ["G", False, False]]), 0, None
    gp = _grad_part(case, fm[0], pm, fp[3])
    if gp[0] != "res":
        return "inside", (gp[0], [["F", fp[1], fp[2]], ["G", False, False]]), 0, None
    return "results", [["F", fp[1], fp[2]], ["G", gp[1], gp[2]]], (1 if kind == "FG" else 0), None


def _excls(case):
    return case.get("excls") or "ValueError"


def expected(case):
    """Property-satisfying behaviour: first terminating condition decides; results of a too-few evaluation are delivered."""
    info = {"decider": None, "inside_results": None, "stop_index": None}
    if case["step"] == "evaluator":
        events = [EV["SES"], EV["SE"]]
        tag, payload, _, _ = _eval_req(case, case["script"][0], None)
        info["stop_index"] = 0
        if tag == "raise":
            info["decider"] = "raise"
            return {"outcome": ["exc", _excls(case)], "delivered": [], "events": events, "aborted": [False]}, info
        if tag == "abort":
            info["decider"] = "abort"
            return {"outcome": ["exit", EXIT["USER_ABORT"]], "delivered": [], "events": events + [EV["FES"]], "aborted": [True]}, info
        if tag == "inside":
            info["decider"], info["inside_results"] = payload
            return {"outcome": ["exit", EXIT["TOO_FEW"]], "delivered": payload[1], "events": events + [EV["FE"], EV["FES"]],
                    "aborted": [False]}, info
        few = any(not r[1] for r in payload)
        info["decider"] = "threshold" if few else None
        return {"outcome": ["exit", EXIT["TOO_FEW"] if few else EXIT["EVAL_FINISHED"]], "delivered": payload,
                "events": events + [EV["FE"], EV["FES"]], "aborted": [False]}, info
    tree = root(case)
    D = depth(tree)
    state = {"has": [False] * (D + 1), "aborted": [False] * (D + 1)}
    exp = _expected_run(tree, 0, state, info)
    exp["aborted"] = state["aborted"]
    return exp, info


def _expected_run(node, lvl, state, info):
    """One run of the optimizer step of plan level lvl (0 = the step of the case)."""
    case = node["cfg"]
    top = lvl == 0
    delivered, events = [], [EV["SO"]]
    completed, cache, out = 0, None, None
    check_failures = case["rmin"] < 1 and not case["allow_nan"]

    def stop(code, decider, i):
        if top:
            info["decider"], info["stop_index"] = decider, i
        return code

    for i, req in enumerate(node["script"]):
        if case.get("maxf") is not None and completed >= case["maxf"]:
            out = stop(EXIT["MAX_FUNCTIONS"], "budget", i)
            break
        sub = node["subs"][i]
        if sub is not None:
            # the nested plan runs before the evaluation; its tracker keeps the best trackable result of ITS step
            iexp = _expected_run(sub, lvl + 1, state, info)
            delivered = delivered + iexp["delivered"]
            events = events + iexp["events"]
            if iexp["outcome"][0] == "exc":
                if top:
                    info["decider"], info["stop_index"] = "raise", i
                return {"outcome": iexp["outcome"], "delivered": delivered, "events": events}
            if iexp["outcome"][1] == EXIT["USER_ABORT"]:
                out = stop(EXIT["USER_ABORT"], "abort", i)
                break
            if not state["has"][lvl + 1]:
                out = stop(EXIT["NESTED_FAILED"], "nested-no-result", i)
                break
        events.append(EV["SE"])
        tag, payload, counted, cache = _eval_req(case, req, cache)
        if tag == "raise":
            if top:
                info["decider"], info["stop_index"] = "raise", i
            return {"outcome": ["exc", _excls(case)], "delivered": delivered, "events": events}
        if tag == "abort":
            out = stop(EXIT["USER_ABORT"], "abort", i)
            break
        if tag == "inside":
            if top:
                info["decider"], info["inside_results"] = payload
                info["stop_index"] = i
            else:
                info["nested_inside"] = True
            delivered = delivered + payload[1]
            events.append(EV["FE"])
            out = EXIT["TOO_FEW"]
            break
        delivered = delivered + payload
        events.append(EV["FE"])
        if any(r[0] == "F" and r[1] and not r[2] for r in payload):
            state["has"][lvl] = True
        if any((not r[1]) or (check_failures and r[2]) for r in payload):
            out = stop(EXIT["TOO_FEW"], "threshold", i)
            break
        completed += counted
    if out is None:
        out = EXIT["OPT_FINISHED"]
    if out == EXIT["USER_ABORT"]:
        state["aborted"][lvl] = True
    events.append(EV["FO"])
    return {"outcome": ["exit", out], "delivered": delivered, "events": events}


def _cache_respecting(case):
    cache = None
    for req in case["script"]:
        if req["kind"] == "F":
            cache = req["pt"]
        elif req["kind"] == "FG":
            cache = None
        elif cache != req["pt"]:
            return False
    return True


def _direct(case, obs):
    """Clauses of the property evaluated on the observation alone (no expected run): evaluator calls, result groups,
    TOO_FEW exactly when the last evaluation's results say so, flags of every result against what the evaluator returned."""
    ev, out = obs["events"], obs["outcome"]
    if obs["calls"] != ev.count(EV["SE"]):
        return {"clause": "one-evaluator-call-per-evaluation", "detail": {"calls": obs["calls"], "START_EVALUATION": ev.count(EV["SE"])}}
    if len(obs["groups"]) != ev.count(EV["FE"]) or sum(obs["groups"]) != len(obs["delivered"]):
        return {"clause": "results-carried-by-FINISHED_EVALUATION", "detail": obs["groups"]}
    if out[0] == "exit" and out[1] not in EXIT.values():
        return {"clause": "undocumented-exit-code", "detail": out}
    if is_nested(case):
        return None
    cf = case["step"] != "evaluator" and case["rmin"] < 1 and not case["allow_nan"]
    gs, i = [], 0
    for n in obs["groups"]:
        gs.append(obs["delivered"][i:i + n])
        i += n

    def bad(r):
        return (not r[1]) or (cf and r[2])
    if any(bad(r) for g in gs[:-1] for r in g):
        return {"clause": "run-continued-after-an-evaluation-with-too-few-realizations", "detail": gs}
    last_bad = bool(gs) and any(bad(r) for r in gs[-1])
    _, info = expected(case)
    if info["decider"] not in ("filter", "estimator"):       # (inside calculate nothing is delivered today: known finding)
        if (out == ["exit", EXIT["TOO_FEW"]]) != last_bad:
            return {"clause": "TOO_FEW_REALIZATIONS-exactly-when-the-last-evaluation-had-too-few", "detail": {"outcome": out, "last": gs[-1:]}}
    # flags of the delivered results against what the evaluator actually returned (threshold semantics; filters and
    # estimators only remove the functions through an abort, never silently)
    rec = [r for r in obs.get("record", []) if "exc" not in r]
    R, rmin, pmin = case["R"], case["rmin"], case["pmin"]
    gi = 0
    lastf = None
    for r in rec:
        if gi >= len(gs):
            break
        g = gs[gi]
        gi += 1
        k = 0
        for fm in r["f"]:
            if k >= len(g) or g[k][0] != "F":
                return {"clause": "function-result-missing", "detail": g}
            ok = fm.count(False)
            if g[k][2] != (ok == 0) or (g[k][1] != (ok >= rmin) and not (g[k][1] is False and info["decider"] in ("filter", "estimator"))):
                return {"clause": "result-flags-vs-evaluator-output", "detail": {"result": g[k], "failed": fm, "rmin": rmin}}
            k += 1
        if r["p"] is None and r["f"]:
            lastf = r["f"][0]           # the function result cached for a later gradient-only request: the first vector
        if r["p"] is not None:
            if k >= len(g) or g[k][0] != "G":
                return {"clause": "gradient-result-missing", "detail": g}
            base = r["f"][0] if r["f"] else lastf
            fg = [base[x] or r["p"][x] < pmin for x in range(R)]
            ok = fg.count(False)
            if g[k][2] != (ok == 0) or (g[k][1] != (ok >= rmin) and not (g[k][1] is False and info["decider"] in ("filter", "estimator"))):
                return {"clause": "gradient-result-flags-vs-evaluator-output", "detail": {"result": g[k], "failed": fg, "rmin": rmin}}
    return None


def oracle(case, obs):
    exp, info = expected(case)
    out = obs["outcome"]
    if out[0] == "exc" and (exp["outcome"][0] != "exc" or out[1] != exp["outcome"][1]):
        return {"clause": "internal-exception-instead-of-exit-code", "detail": {"got": out, "expected": exp["outcome"], "decider": info["decider"]}}
    if exp["outcome"][0] == "exc" and out[0] != "exc":
        return {"clause": "evaluator-exception-swallowed", "detail": {"got": out}}
    if out != exp["outcome"]:
        return {"clause": "exit-code-of-first-terminating-condition", "detail": {"got": out, "expected": exp["outcome"], "decider": info["decider"]}}
    nf = sum(1 for r in obs["delivered"] if r[0] == "F")
    if case["step"] != "evaluator" and case.get("maxf") is not None and _cache_respecting(case) and not is_nested(case):
        B = max([1] + [r["batch"] for r in case["script"]])
        if nf > case["maxf"] + B - 1:
            return {"clause": "budget-exceeded", "detail": {"function_results": nf, "max_functions": case["maxf"], "largest_batch": B}}
    if obs["delivered"] != exp["delivered"] or obs["events"] != exp["events"]:
        clause = "results-delivered-before-too-few" if exp["outcome"] == ["exit", EXIT["TOO_FEW"]] else "delivered-results-and-events"
        return {"clause": clause, "detail": {"got": [obs["delivered"], obs["events"]], "expected": [exp["delivered"], exp["events"]],
                                             "decider": info["decider"]}}
    if not obs.get("transformed_ok", True):
        return {"clause": "transformed-results-missing", "detail": None}
    if not obs.get("metadata_ok", True):
        return {"clause": "metadata-not-copied-into-results", "detail": None}
    if case["step"] != "basic" and obs["aborted"] != exp["aborted"]:
        return {"clause": "plan-aborted-flags", "detail": {"got": obs["aborted"], "expected": exp["aborted"]}}
    d = _direct(case, obs)
    if d is not None:
        return d
    if obs.get("second") is not None and not obs["second"]["same"]:
        return {"clause": "second-run-of-the-same-step-object-differs", "detail": None}
    if case["step"] == "basic" and obs.get("basic") and out[0] == "exit":
        has = any(r[0] == "F" and r[1] and not r[2] for r in obs["delivered"])
        if obs["basic"]["has_results"] != has or not obs["basic"]["variables_ok"]:
            return {"clause": "BasicOptimizer-results-vs-delivered-results", "detail": obs["basic"]}
    return None


def known_signature(case, obs, violation):
    """C14:abort-inside-calculate -- the too-few decision was taken by a filter or estimator inside
    calculate and the sole discrepancy is the missing delivery of that evaluation's results."""
    if is_nested(case):
        return None
    exp, info = expected(case)
    if info["decider"] not in ("filter", "estimator"):
        return None
    if violation is None or violation.get("clause") != "results-delivered-before-too-few":
        return None
    missing = info["inside_results"]
    n = len(missing)
    if obs["outcome"] != exp["outcome"] or obs["outcome"] != ["exit", EXIT["TOO_FEW"]]:
        return None
    if exp["delivered"][len(exp["delivered"]) - n:] != missing or obs["delivered"] != exp["delivered"][: len(exp["delivered"]) - n]:
        return None
    tail = 1  # the FINISHED step event
    ev = exp["events"]
    if ev[-1 - tail] != EV["FE"] or obs["events"] != ev[: -1 - tail] + ev[-tail:]:
        return None
    if any(obs["aborted"]) or not obs.get("transformed_ok", True) or not obs.get("metadata_ok", True):
        return None
    # everything else the property says must hold inside the region as well
    if _direct(case, obs) is not None:
        return None
    if obs.get("second") is not None and not obs["second"]["same"]:
        return None
    if case["step"] == "basic" and obs.get("basic"):
        has = any(r[0] == "F" and r[1] and not r[2] for r in obs["delivered"])
        if obs["basic"]["has_results"] != has or not obs["basic"]["variables_ok"]:
            return None
    return "C14:abort-inside-calculate"


# ---------------------------------------------------------------------------------------------
# generators
# ---------------------------------------------------------------------------------------------
FILTERS_R = {
    1: [None, ["sort-objective", 0, 0], ["cvar-objective", 0.5], ["cvar-constraint", 1.0], ["sort-constraint", 0, 0]],
    2: [None, ["sort-objective", 0, 0], ["sort-objective", 1, 1], ["sort-constraint", 0, 1], ["sort-constraint", 1, 1],
        ["cvar-objective", 0.5], ["cvar-objective", 0.75], ["cvar-constraint", 0.25], ["cvar-constraint", 1.0]],
    3: [None, ["sort-objective", 1, 2], ["sort-constraint", 2, 2], ["sort-objective", 0, 1], ["cvar-objective", 0.25],
        ["cvar-constraint", 0.75], ["cvar-objective", 1.0]],
}
TRANSFORMS = ["none", "variables", "objectives", "constraints", "all"]
REQS = [("F", 0, 0), ("G", 0, 0), ("FG", 0, 0), ("F", 0, 2), ("F", 1, 0), ("G", 1, 0), ("FG", 1, 0)]
BREQS = [("F", 0, 0), ("G", 0, 0), ("FG", 0, 0), ("F", 0, 2), ("F", 1, 3), ("F", 1, 1)]
NANLOCS = ["all", "obj0", "obj1", "con"]
WEIGHTS = {1: [[1.0], [0.25]], 2: [[0.75, 0.25], [0.125, 2.0], [1.0, 0.0], [0.0, 0.5]],
           3: [[0.5, 0.25, 0.25], [3.0, 1.0, 0.5], [1.0, 0.0, 1.0], [0.0, 0.0, 2.0], [0.5, 0.5, 0.0]],
           4: [[0.25, 0.5, 1.0, 2.0], [1.0, 0.0, 0.0, 1.0], [0.0, 1.0, 1.0, 1.0]]}


def _subsets(n):
    for bits in itertools.product([False, True], repeat=n):
        yield list(bits)


def _all_faults(kind, batch, R, P, full):
    """Every fault of one evaluation: exceptions and every (vector, realization)/(realization, perturbation) NaN subset."""
    yield {"exc": "raise"}
    yield {"exc": "abort"}
    nv = max(1, batch)
    if kind == "F":
        for bits in _subsets(nv * R):
            if any(bits):
                yield {"fm": [bits[v * R:(v + 1) * R] for v in range(nv)]}
        return
    fms = list(_subsets(R))
    pms = list(_subsets(R * P))
    if not full:
        pms = [b for b in pms if sum(b) <= 2 or all(b)]
    for fb in fms:
        for pb in pms:
            if any(fb) or any(pb):
                yield {"fm": [fb], "pm": [pb[r * P:(r + 1) * P] for r in range(R)]}


def _mk(step, R, P, rmin, pmin, allow, maxf, filt, est, tr, order, script):
    # finite variable bounds / a linear constraint give the results a ConstraintInfo also when functions is None;
    # derived from the other fields so that the generator streams stay aligned
    h = (R + 3 * P + 5 * rmin + 7 * len(script) + 11 * TRANSFORMS.index(tr) + (13 if filt else 0) + (17 if allow else 0))
    return {"step": step, "R": R, "P": P, "rmin": rmin, "pmin": pmin, "allow_nan": allow, "maxf": maxf, "filter": filt,
            "estimator": est, "transform": tr, "order": order, "bounds": h % 2 == 0, "linear": h % 3 == 0, "script": script,
            "nested": None}


def _req(kind, pt, batch, fault=None):
    return {"kind": kind, "pt": pt, "batch": batch, "fault": fault}


def _run_length(script):
    n = 0
    for r in script:
        n += max(1, r["batch"]) if r["kind"] == "F" else (1 if r["kind"] == "FG" else 0)
    return n


def _dress(case, rng):
    """Features of the real run the model does not have (the compared facts must not depend on them): number of objectives and
    the place of the NaN in a failed row, realization weights, the exception class, metadata, an explicit start vector, a second
    run of the same step object, the BasicOptimizer entry path."""
    c = dict(case)
    u = rng.random()
    if u < 0.45:
        c["nobj"] = 2
        c["nanloc"] = rng.choice(NANLOCS)
    elif u < 0.7:
        c["nanloc"] = rng.choice(["obj0", "con"])
    nested = is_nested(c)
    basic = c["step"] == "optimizer" and not nested and rng.random() < 0.18
    if rng.random() < 0.4:
        # a zero weight can turn the estimate of a surviving ensemble into NaN, which the result tracker (C12) rejects:
        # runs whose outcome depends on a tracker (nested, BasicOptimizer.results) use positive weights
        c["weights"] = rng.choice([w for w in WEIGHTS[c["R"]] if not (nested or basic) or 0 not in w])
    c["excls"] = rng.choice(EXC_CLASSES)
    raises = any((r.get("fault") or {}).get("exc") == "raise" for r in c["script"])
    if c["step"] == "optimizer" and not nested and rng.random() < (0.45 if raises else 0.03):
        # optimizer.stdout (/ stderr) redirected to files; evaluations run with the redirection suspended (_Redirector):
        # an exception of the evaluator -- OSError subclasses in particular -- must pass through the suspension
        c["redirect"] = rng.choice([True, "both"])
        if raises and rng.random() < 0.6:
            c["excls"] = rng.choice(OS_CLASSES)
    if basic:
        c["step"] = "basic"
        return c
    # (the stddev estimator rejects merged estimation with a ConfigError: a configuration error, not a run)
    if c["step"] != "evaluator" and c.get("estimator") != "stddev" and rng.random() < (0.5 if _grad_all_failed(c) else 0.25):
        c["merge"] = True              # gradient.merge_realizations: one estimate over the perturbations of all realizations
    if rng.random() < 0.2:
        c["mask"] = True
    if rng.random() < 0.15 and c["R"] >= 1:
        c["unused_filter"] = True
    if rng.random() < 0.25:
        c["metadata"] = True
    if c["step"] == "optimizer" and rng.random() < 0.25:
        c["explicit"] = True
    if not nested and rng.random() < 0.15:
        c["repeat"] = True
    return c


def _structured(tier, rng):
    """Single-fault scripts: every faulty evaluation index x every fault x configuration sample (or all)."""
    thorough = tier == "thorough"
    maxlen = 3 if thorough else 2
    for R, P in ((1, 1), (2, 1), (2, 2)):
        orders = [list(p) for p in itertools.permutations(range(R))]
        for L in range(1, maxlen + 1):
            for shape in itertools.product(REQS, repeat=L):
                if not thorough and L == 2 and rng.random() < 0.5:
                    continue
                if thorough and L == 3 and rng.random() < 0.85:
                    continue
                for fi in range(L + 1):
                    kind, pt, batch = shape[fi] if fi < L else ("F", 0, 0)
                    faults = [None] if fi == L else list(_all_faults(kind, batch, R, P, thorough))
                    if not thorough and len(faults) > 12:
                        faults = faults[:2] + rng.sample(faults[2:], 10 if L == 1 else 5)
                    elif thorough and len(faults) > 40 and L > 1:
                        faults = faults[:2] + rng.sample(faults[2:], 30 if L == 2 else 8)
                    for fault in faults:
                        script = [_req(k, p, b, fault if i == fi else None) for i, (k, p, b) in enumerate(shape)]
                        nconf = (6 if thorough else 3) if fi < L else 2
                        for _ in range(nconf):
                            yield _mk("optimizer", R, P, rng.randint(0, R), rng.randint(1, P), rng.random() < 0.5,
                                      rng.choice([None] + list(range(1, _run_length(script) + 2))),
                                      rng.choice(FILTERS_R[R]) if rng.random() < 0.6 else None,
                                      "stddev" if rng.random() < 0.35 else "mean", rng.choice(TRANSFORMS),
                                      rng.choice(orders), script)


def _budget_sweep(tier, rng):
    """Fault-free scripts with batches of 1-3 vectors x every max_functions value up to the unconstrained run length (+1)."""
    maxlen = 4 if tier == "thorough" else 3
    for L in range(1, maxlen + 1):
        shapes = list(itertools.product(BREQS, repeat=L))
        cap = 45 if tier == "quick" else 200
        if len(shapes) > cap:
            shapes = rng.sample(shapes, cap)
        for shape in shapes:
            script = [_req(k, p, b) for (k, p, b) in shape]
            for maxf in [None] + list(range(1, _run_length(script) + 2)):
                yield _mk("optimizer", 2, 1, 2, 1, False, maxf, None, "mean", rng.choice(TRANSFORMS), [0, 1], script)


def _evaluator_steps(tier, rng):
    thorough = tier == "thorough"
    for R in (1, 2, 3):
        orders = [list(p) for p in itertools.permutations(range(R))]
        for batch in (0, 1, 2):
            faults = [None] + list(_all_faults("F", batch, R, 1, True))
            for fault in faults:
                for filt in FILTERS_R[R]:
                    for est in ("mean", "stddev"):
                        for rmin in range(R + 1):
                            if not thorough and rng.random() < (0.8 if R == 3 or batch == 2 else 0.5):
                                continue
                            yield _mk("evaluator", R, 1, rmin, 1, False, None, filt, est, rng.choice(TRANSFORMS),
                                      rng.choice(orders), [_req("F", rng.choice([0, 1]), batch, fault)])


def _grad_allfail(tier, rng):
    """Gradient evaluations in which realizations fall below perturbation_min_success although every function value is fine:
    realization_min_success = 0 with NaN-tolerant and NaN-intolerant methods (the all-failed test on GRADIENT results),
    and realization_min_success > 0 (gradients None); gradient-only after a function request, function+gradient, and
    a gradient-only request at a point without cached function."""
    n = 260 if tier == "quick" else 5000
    for _ in range(n):
        R = rng.choice([1, 2, 2, 3])
        P = rng.choice([1, 2, 3])
        pmin = rng.randint(1, P)
        rmin = rng.choice([0, 0, 0, 1, R])

        def pm_row(kill):
            ok = rng.randint(0, pmin - 1) if kill else rng.randint(pmin, P)
            row = [True] * P
            for j in rng.sample(range(P), ok):
                row[j] = False
            return row
        mode = rng.choice(["all", "all", "all-but-one", "some"])
        kill = [True] * R
        if mode == "all-but-one":
            kill[rng.randrange(R)] = False
        elif mode == "some":
            kill = [rng.random() < 0.5 for _ in range(R)]
        fault = {"fm": [[False] * R], "pm": [pm_row(k) for k in kill]}
        shape = rng.choice(["F,G", "FG", "F,G,F", "G", "F,F1,G1", "FG,G"])
        pts = {"F": ("F", 0), "G": ("G", 0), "FG": ("FG", 0), "F1": ("F", 1), "G1": ("G", 1)}
        script, placed = [], False
        for tok in shape.split(","):
            k, p = pts[tok]
            f = None
            if k != "F" and not placed:
                f, placed = fault, True
            script.append(_req(k, p, 0, f))
        order = list(range(R))
        rng.shuffle(order)
        filt = rng.choice(FILTERS_R.get(R, [None])) if rng.random() < 0.2 else None
        yield _mk("optimizer", R, P, rmin, pmin, rng.random() < 0.4, rng.choice([None, None, 2, 3]), filt,
                  "stddev" if rng.random() < 0.15 else "mean", rng.choice(TRANSFORMS), order, script)


def _random_fault(rng, kind, batch, R, P):
    u = rng.random()
    if u < 0.08:
        return {"exc": "raise"}
    if u < 0.16:
        return {"exc": "abort"}
    if u < 0.45:
        return None
    q = rng.choice([0.15, 0.4, 0.7, 1.0])
    nv = max(1, batch)
    f = {"fm": [[rng.random() < q for _ in range(R)] for _ in range(nv)]}
    if kind != "F":
        q2 = rng.choice([0.0, 0.3, 0.7, 1.0])
        f["pm"] = [[rng.random() < q2 for _ in range(P)] for _ in range(R)]
    return f


def _random(tier, rng):
    n = 700 if tier == "quick" else 25000
    for _ in range(n):
        R = rng.choice([1, 2, 2, 3, 3, 4])
        P = rng.choice([1, 2, 3])
        L = rng.randint(1, 5)
        script = []
        for _ in range(L):
            kind, pt, batch = rng.choice(REQS)
            if kind == "F" and rng.random() < 0.2:
                batch = rng.choice([1, 2, 3])
            script.append(_req(kind, pt, batch, _random_fault(rng, kind, batch, R, P)))
        filt = None
        if rng.random() < 0.55:
            m = rng.choice(["sort-objective", "sort-constraint", "cvar-objective", "cvar-constraint"])
            if m.startswith("sort"):
                a = rng.randrange(R)
                filt = [m, a, rng.randrange(a, R)]
            else:
                filt = [m, rng.choice([0.25, 0.5, 0.75, 1.0])]
        order = list(range(R))
        rng.shuffle(order)
        yield _mk("optimizer", R, P, rng.randint(0, R), rng.randint(1, P), rng.random() < 0.5,
                  rng.choice([None, None] + list(range(1, _run_length(script) + 2))), filt,
                  "stddev" if rng.random() < 0.3 else "mean", rng.choice(TRANSFORMS), order, script)


def _nested(tier, rng):
    """Outer optimizer step with a nested optimization: inner runs that fail at their first evaluation (no result ->
    NESTED_OPTIMIZER_FAILED), produce results, are stopped by their budget, raise or abort; outer faults and budgets."""
    n = 350 if tier == "quick" else 6000
    for _ in range(n):
        R = rng.choice([1, 2, 2, 3])
        P = rng.choice([1, 2])
        L = rng.randint(1, 3)
        outer, scripts = [], []
        first_bad = rng.random() < 0.45          # the very first inner evaluation fails: the tracker stays empty
        for i in range(L):
            kind = rng.choice(["F", "F", "FG"])
            outer.append(_req(kind, rng.choice([0, 1]), 0, _random_fault(rng, kind, 0, R, P) if rng.random() < 0.4 else None))
            sc = []
            for j in range(rng.randint(1, 3)):
                k2, pt, batch = rng.choice(REQS)
                fault = None
                u = rng.random()
                if i == 0 and j == 0 and first_bad:
                    fault = {"fm": [[True] * R for _ in range(max(1, batch))]}
                    if k2 != "F":
                        fault["pm"] = [[False] * P for _ in range(R)]
                elif u < 0.3:
                    fault = _random_fault(rng, k2, batch, R, P)
                sc.append(_req(k2, pt, batch, fault))
            scripts.append(sc)
        rmin = rng.randint(0, R)
        order = list(range(R))
        rng.shuffle(order)
        c = _mk("optimizer", R, P, rmin, rng.randint(1, P), rng.random() < 0.5,
                rng.choice([None, None] + list(range(1, L + 2))), None, "mean", "none", order, outer)
        c["nested"] = {"scripts": scripts, "maxf": rng.choice([None, None, 1, 2]), "rmin": rng.randint(0, R)}
        yield c


def _positions(tree_subs, script, path=()):
    """Pre-order list of (path, level) of every request of a run tree given as (script, subs)."""
    out = []
    for i, r in enumerate(script):
        sub = tree_subs[i]
        if sub is not None:
            out += _positions(sub["subs"], sub["script"], path + (i,))
        out.append(path + (i,))
    return out


def _tree3(tier, rng):
    """Three plan levels.  A fault (abort, exception, every realization failed, one realization failed) at every request
    position of the run tree -- in particular at the first evaluation of the innermost and of the middle run, when no tracker
    holds a result yet -- with thresholds / budgets varied per level."""
    thorough = tier == "thorough"
    shapes = [([1], [[1]]), ([1], [[2]]), ([2], [[1, 1]]), ([1, 1], [[1], [1]]), ([2, 1], [[1, 2], [1]]), ([1, 2], [[2], [1, 1]])]
    kinds = ["abort", "raise", "allfail", "onefail"]
    for R in (1, 2):
        for mids, inners in shapes:
            # root: one request per entry of mids; the mid run of root request i has mids[i] requests; its request j
            # triggers an innermost run with inners[i][j] requests
            def build(fault_at, fault):
                def rq(path, leaf):
                    kind = rng.choice(["F", "FG"]) if not leaf else rng.choice(["F", "F", "FG", "G"])
                    batch = rng.choice([0, 0, 2]) if (leaf and kind == "F") else 0
                    f = None
                    if path == fault_at:
                        if fault in ("abort", "raise"):
                            f = {"exc": fault}
                        else:
                            nv = max(1, batch)
                            row = [True] * R if fault == "allfail" else [True] + [False] * (R - 1)
                            f = {"fm": [list(row) for _ in range(nv)]}
                            if kind != "F":
                                f["pm"] = [[False] for _ in range(R)]
                    return _req(kind, rng.choice([0, 1]), batch, f)
                script, subs = [], []
                for i, nm in enumerate(mids):
                    script.append(rq((i,), False))
                    mscript, msubs = [], []
                    for j in range(nm):
                        mscript.append(rq((i, j), False))
                        iscript = [rq((i, j, k), True) for k in range(inners[i][j])]
                        msubs.append({"rmin": rng.randint(0, R), "maxf": rng.choice([None, None, 1]), "script": iscript,
                                      "subs": [None] * len(iscript)})
                    subs.append({"rmin": rng.randint(0, R), "maxf": rng.choice([None, None, 1, 2]), "script": mscript, "subs": msubs})
                return script, subs
            script0, subs0 = build(None, None)
            positions = [None] + _positions(subs0, script0)
            for pos in positions:
                for fault in (kinds if pos is not None else [None]):
                    if not thorough and rng.random() < 0.55:
                        continue
                    for _ in range(8 if thorough else 1):
                        script, subs = build(pos, fault)
                        order = list(range(R))
                        rng.shuffle(order)
                        c = _mk("optimizer", R, 1, rng.randint(0, R), 1, rng.random() < 0.5, rng.choice([None, None, 1, 2]),
                                None, "mean", "none", order, script)
                        c["tree"] = subs
                        yield c


def gen_cases(tier, rng):
    streams = (_nested, _tree3, _budget_sweep, _evaluator_steps, _grad_allfail, _structured, _random)
    for stream in streams:
        for c in stream(tier, rng):
            yield _dress(c, rng)


# ---------------------------------------------------------------------------------------------
# Gallina printer
# ---------------------------------------------------------------------------------------------
def _fault_term(case, req):
    f = req.get("fault") or {}
    if f.get("exc") == "raise":
        return "FRaise"
    if f.get("exc") == "abort":
        return "FAbort"
    fm, pm = _masks(case, req)
    return f"(FMasks {cq.lst(cq.bs(x) for x in fm)} {cq.lst(cq.bs(x) for x in pm)})"


def _req_term(case, req):
    k = {"F": "KF", "G": "KG", "FG": "KFG"}[req["kind"]]
    return f"(Build_req {k} {cq.nat(req['pt'])} {cq.nat(req['batch'])} {_fault_term(case, req)})"


def _filter_term(f):
    if f is None:
        return "NoFilter"
    if f[0].startswith("sort"):
        return f"(SortF {cq.nat(f[1])} {cq.nat(f[2])})"
    return f"(CvarF {cq.q(f[1])})"


def cfg_term(case):
    est = "Stddev" if case.get("estimator") == "stddev" else "Mean"
    return (f"(Build_cfg {cq.nat(case['R'])} {cq.nat(case['rmin'])} {cq.nat(case['pmin'])} {cq.b(case['allow_nan'])} "
            f"{cq.opt(case.get('maxf'), cq.nat)} {_filter_term(case.get('filter'))} {est} {cq.nats(case['order'])} "
            f"{cq.nats(r for r, w in enumerate(case.get('weights') or []) if w == 0)})")


def _res_term(r):
    return f"(Build_res {'RF' if r[0] == 'F' else 'RG'} {cq.b(r[1])} {cq.b(r[2])})"


def tree_term(node):
    items = []
    for r, sub in zip(node["script"], node["subs"]):
        items.append(f"({_req_term(node['cfg'], r)}, {'None' if sub is None else '(Some ' + tree_term(sub) + ')'})")
    return f"(NS {cfg_term(node['cfg'])} {cq.lst(items)})"


def coq_case(case, obs):
    out = obs["outcome"]
    o = f"(OExit {cq.z(out[1])})" if out[0] == "exit" else f"(OExc {cq.s(out[1])})"
    tree, d = "None", 0
    if case["step"] != "evaluator" and is_nested(case):
        t = root(case)
        tree, d = f"(Some {tree_term(t)})", depth(t)
    ab = [] if case["step"] == "basic" else obs["aborted"]
    return (f"(Build_case {cq.b(case['step'] == 'evaluator')} {cfg_term(case)} "
            f"{cq.lst(_req_term(case, r) for r in case['script'])} {tree} {cq.nat(d)} {cq.s(_excls(case))} {o} "
            f"{cq.lst(_res_term(r) for r in obs['delivered'])} {cq.nats(obs['groups'])} {cq.zs(obs['events'])} "
            f"{cq.nat(obs['calls'])} {cq.bs(ab)})")


# ---------------------------------------------------------------------------------------------
# evidence helpers, shrinking, search
# ---------------------------------------------------------------------------------------------
def _has_fault(case):
    def node_has(n):
        return any(r.get("fault") for r in n["script"]) or any(node_has(x) for x in n["subs"] if x is not None)
    if case["step"] == "evaluator":
        return any(r.get("fault") for r in case["script"])
    return node_has(root(case))


def nontrivial(case, obs):
    return _has_fault(case) or obs["outcome"] == ["exit", EXIT["MAX_FUNCTIONS"]]


def _grad_all_failed(case):
    """The audited region: a gradient result whose realizations all failed through perturbation_min_success only."""
    if case["step"] == "evaluator" or is_nested(case):
        return False
    for r in case["script"]:
        f = r.get("fault") or {}
        if r["kind"] != "F" and f.get("pm") and not any(any(x) for x in (f.get("fm") or [[False]])):
            if all(row.count(False) < case["pmin"] for row in f["pm"]):
                return True
    return False


def features(case, obs):
    _, info = expected(case)
    out = obs["outcome"]
    nested = is_nested(case)
    step = case["step"] if not nested else f"optimizer+nested{depth(root(case))}"
    return {"step": step, "R": case["R"], "P": case["P"], "len": len(case["script"]),
            "filter": (case.get("filter") or ["none"])[0], "estimator": case.get("estimator"), "transform": case["transform"],
            "bounds": bool(case.get("bounds")), "linear": bool(case.get("linear")),
            "outcome": "exception" if out[0] == "exc" else {1: "TOO_FEW", 2: "MAX_FUNCTIONS", 3: "NESTED_FAILED", 4: "USER_ABORT",
                                                           5: "OPT_FINISHED", 6: "EVAL_FINISHED"}.get(out[1], out[1]),
            "decider": info["decider"], "rmin0": case["rmin"] == 0, "maxf": case.get("maxf") is not None,
            "nanloc": f"{case.get('nobj', 1)}obj/{case.get('nanloc', 'all')}", "excls": _excls(case) if info["decider"] == "raise" else "-",
            "weights": ("with-zero" if case.get("weights") and 0 in case["weights"] else
                        "unequal" if case.get("weights") and len(set(case["weights"])) > 1 else "equal"),
            **{k: bool(case.get(k)) for k in ("metadata", "explicit", "repeat", "mask", "unused_filter", "redirect", "merge")},
            "grad_all_failed_by_pmin": (f"rmin0={case['rmin'] == 0},allow_nan={case['allow_nan']},merged={bool(case.get('merge'))}"
                                        if _grad_all_failed(case) else "-"),
            "batched_budget": bool(case.get("maxf") is not None and any(r["batch"] > 1 for r in case["script"]))}


def shrink(case):
    s = case["script"]
    if case.get("tree"):
        t = case["tree"]
        for k in range(len(s) - 1, 0, -1):
            yield {**case, "script": s[:k], "tree": t[:k]}
        return
    if case.get("nested"):
        n = case["nested"]
        for k in range(len(s) - 1, 0, -1):
            yield {**case, "script": s[:k], "nested": {**n, "scripts": n["scripts"][:k]}}
        for i, sc in enumerate(n["scripts"]):
            if len(sc) > 1:
                yield {**case, "nested": {**n, "scripts": n["scripts"][:i] + [sc[:-1]] + n["scripts"][i + 1:]}}
        return
    for k in ("repeat", "metadata", "explicit", "weights", "mask", "unused_filter", "redirect", "merge"):
        if case.get(k):
            yield {kk: v for kk, v in case.items() if kk != k}
    if case["step"] == "basic":
        yield {**case, "step": "optimizer"}
    if case.get("nobj", 1) == 2 and case.get("nanloc", "all") in ("all", "obj0", "con"):
        yield {**case, "nobj": 1}
    for k in range(len(s)):
        if len(s) > 1:
            yield {**case, "script": s[:k] + s[k + 1:]}
    for k, r in enumerate(s):
        if r.get("fault") and k < len(s) - 1:
            yield {**case, "script": s[:k + 1]}
    if case["transform"] != "none":
        yield {**case, "transform": "none"}
    if case.get("bounds"):
        yield {**case, "bounds": False}
    if case.get("linear"):
        yield {**case, "linear": False}
    if case.get("filter") is not None:
        yield {**case, "filter": None}
    if case.get("estimator") == "stddev":
        yield {**case, "estimator": "mean"}
    if case.get("maxf") is not None:
        yield {**case, "maxf": None}


def search(rng, case):
    if case is None:
        yield from itertools.islice((_dress(c, rng) for c in _random("quick", rng)), 0, 600)
        return
    yield from shrink(case)
    if is_nested(case):
        yield from itertools.islice(_nested("quick", rng), 0, 200)
        yield from itertools.islice(_tree3("quick", rng), 0, 200)
        return
    for tr in TRANSFORMS:
        yield {**case, "transform": tr}
    for rmin in range(case["R"] + 1):
        yield {**case, "rmin": rmin}
    for loc in NANLOCS:
        yield {**case, "nobj": 2, "nanloc": loc}
    yield from itertools.islice((_dress(c, rng) for c in _random("quick", rng)), 0, 300)


MANIFEST = {
    "level_text": ("Machine-checked Coq proof about the executable exit-code machine of an optimizer / evaluator step (Model/Step.v: budget "
                   "check, nested optimizations to any depth, evaluator call, gradient cache, filter / threshold / estimator too-few "
                   "decisions with positive and zero realization weights, delivery of results, events), for every request script, fault "
                   "script, threshold, filter, estimator and budget: the outcome is decided by the first request that does not run to "
                   "completion and each documented code arises exactly in its case (C14_exit_classification, "
                   "C14_first_stop_observation, C14_evaluator_step); why an evaluation has too few realizations is characterised on the "
                   "failure masks and on the result flags (C14_too_few_function_request, C14_too_few_gradient_request, "
                   "C14_too_few_by_result_flags); delivered function results never exceed max_functions + (batch - 1) (C14_budget, "
                   "C14_budget_serial, C14_budget_counted); the results of the failing evaluation and its FINISHED_EVALUATION are "
                   "delivered before TOO_FEW_REALIZATIONS (C14_results_before_abort); evaluator exceptions propagate and nothing else "
                   "raises (C14_exceptions_propagate); with nested optimizations the budget is checked first, a nested exception passes "
                   "through, a nested USER_ABORT wins over NESTED_OPTIMIZER_FAILED (C14_nested_priority, C14_leaf_is_plain_step); the "
                   "model's codes/events are members of the enums regenerated from the source (C14_codes_documented).  The machine is "
                   "tied to the code on every run by an in-Coq correspondence over scripted real Plan / BasicOptimizer runs with a "
                   "fault-injecting evaluator (outcome, delivered results, event list, evaluator calls and Plan.aborted flags of every "
                   "level compared exactly; the too-few / call-count / budget clauses also evaluated on the observation alone)."),
    "level_note": ("Trusted / modelled, not verified: the optimizer back-end is a script of requests (SciPy back-ends are C07/C08); the user's "
                   "evaluator is a fault script; realization weights are positive or zero; filters rank by a fixed order given in the "
                   "case and apply to all objectives and the constraint; transforms, the number of objectives, the place of the NaN in a "
                   "failed row, metadata and explicit start vectors are exercised by the real code only (the compared facts must not "
                   "depend on them); nested and BasicOptimizer runs use positive weights, no filters, no transforms.  Known finding "
                   "C14:abort-inside-calculate (results of an evaluation aborted inside calculate are not delivered) is reported as "
                   "KNOWN-FINDING - its signature also requires every other observed fact to be right; the model encodes the "
                   "property-satisfying behaviour.  Trusted: Coq kernel + VM, translator for the enums, the scripted optimizer plug-in / "
                   "fault-injecting evaluator / recording observer of harness/props/C14.py.  All theorems print 'Closed under the global "
                   "context'."),
    "technique": ("Coq proof (induction over request scripts of an executable Gallina state machine; first-stop classification, budget "
                  "invariant, mask-level characterisation of too-few, nested-run priority for arbitrary nested behaviour) + in-Coq "
                  "differential correspondence with scripted real Plan / BasicOptimizer runs under injected faults"),
    "design_ref": "DESIGN.md section 4, C14",
}
