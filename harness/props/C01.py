"""C01 -- ensemble function values are the normalized weighted estimate over realizations.

Correspondence: the real EnsembleEvaluator.calculate(compute_functions=True) is run with a table-driven
evaluator (value per (vector, realization, function) chosen by the generator, NaN by mask); the request
layout, evaluations, failed_realizations, objective_weights/constraint_weights, every objective and
constraint value and the weighted objective are compared inside Coq with Model/Ensemble.v
(Chk_C01.check_case).  The weight vector of each realization filter is observed from the real filter
plug-in (the filters themselves are C04/C05) and is an input of the model.  Per case the results are obtained
either directly from calculate() (optionally after other calculate() calls on the same object) or from the
FINISHED_EVALUATION event of an evaluator step / of an optimizer step driven by a scripted optimizer; for the
steps the exit code is compared with the model as well.
"""
from __future__ import annotations

import itertools
import math

import coqio as cq

ID = "C01"
THEOREM_FILE = "Props/C01.v"
CHK_MODULE = "Check.Chk_C01"
CASE_TYPE = "Chk_C01.case"
CHECK_FN = "Chk_C01.check_case"
HEADER = "From Ropt Require Import Model.Ensemble Gen.Generated."
SHARD_SIZE = 120
PARALLEL = True
EXHAUSTIVE = {"quick": False, "thorough": True}
RULE = ("sampled: R in 1..8 realizations, 1..3 objectives, 0..3 constraints, batches of 1..4 vectors (a single vector is "
        "given both as 1-D and as 2-D input), realization/objective weights uniform, dyadic and arbitrary with zeros, "
        "estimator tuples over {mean, stddev} with and without index maps, 0..2 realization filters of all four kinds with "
        "filter maps mixing -1 / out-of-range ('no filter') and real indices, NaN masks of every density (per row: which "
        "objective/constraint columns carry the NaN), realization_min_success in 0..R or unset, plus an edge stream in "
        "which no successful realization carries weight and a small full-precision (53-bit) stream; thorough adds the "
        "exhaustive grid 2 realizations x 2 functions x all NaN masks x all estimator/filter maps.  Streams added after the audit: "
        "'interleaved' (3..4 objectives, 0..4 constraints, alternating estimator maps such as [0,1,0,1] and alternating filter maps "
        "over 2..3 filters incl. two of the same method, so that neighbouring functions have different estimators and weight rows) and "
        "'late-failure' (batches whose first vector is clean and whose later vectors fail, mostly through a NaN in a constraint column "
        "only).  Entry path per case: EnsembleEvaluator.calculate (optionally preceded by 1..2 other calculate calls on the same "
        "object), an evaluator step, or an optimizer step with a scripted optimizer that requests the batch -- for the steps the "
        "results are what an observer of FINISHED_EVALUATION receives and the step's exit code is checked as well.  Stream 'combined': a combined function+gradient request "
        "(compute_functions=True, compute_gradients=True, built-in sampler) in which perturbed evaluations fail, mostly more than "
        "perturbation_min_success tolerates: the function result of the request must be that of a functions-only request.  "
        "Non-trivial = at least two of {a failed realization, non-uniform realization weights, a filter in use, a stddev "
        "function, more than one vector}; distinct = distinct canonical case.")
ASSUMPTIONS = [
    "the evaluator is a function of (variable vector, realization): the harness evaluator looks the vector up by value and the realization in the context",
    "the weight vector returned by each realization filter for an evaluation is an input of the model (observed from the real filter plug-in on the same NaN-propagated values); what a filter must return is C04/C05",
    "realization and objective weights are non-negative with a positive sum (the configuration rejects a non-positive sum)",
    "function values are finite or NaN (no infinities)",
    "no transforms are configured, so the 'results' delivered by the steps are the optimizer-domain results of calculate()",
    "stream 'combined' (function+gradient request): only the FunctionResults of the request are judged here (the gradient result is C02/C03); mean estimators only, because the stddev gradient estimator may abort the whole request where the function stage alone would not; perturbed evaluations return the unperturbed values of their realization shifted by a constant, or NaN",
]
TRUSTED = [
    "NumPy float64 arithmetic of the implementation is compared with exact rational arithmetic with the tolerance of DESIGN 2.2; the standard deviation is compared through its square",
]

EST_SETS = [["mean"], ["mean", "stddev"], ["stddev", "mean"], ["mean", "stddev", "mean"], ["stddev"]]
VIAS = ["calculate", "calculate", "calculate", "evaluator-step", "optimizer-step"]
TOO_FEW, OPT_DONE, EVAL_DONE = 1, 5, 6


# ---------------------------------------------------------------------------------------------------
# generators
def _dy(rng, lo, hi, den=16):
    return rng.randint(lo * den, hi * den) / den


def _weights(rng, n, full=False):
    mode = rng.choice(["uniform", "pow2", "pow2", "any", "zeros"])
    if full:
        w = [rng.uniform(0.05, 2.0) for _ in range(n)]
        if n > 1 and rng.random() < 0.4:
            w[rng.randrange(n)] = 0.0
        return w
    if n == 1:
        return [rng.choice([1.0, 1.0, 2.0, 0.5, 0.375])]       # a single weight is normalised to one as well
    if mode == "uniform":
        return [1.0] * n
    if mode == "pow2":
        # dyadic weights whose sum is a power of two: normalisation stays exact
        while True:
            w = [rng.randint(0, 16) / 16 for _ in range(n - 1)]
            s = sum(w)
            for target in (1.0, 2.0, 4.0, 8.0):
                if target - s > 0:
                    return w + [target - s]
    w = [rng.randint(1, 32) / 16 for _ in range(n)]
    if mode == "zeros":
        for i in rng.sample(range(n), rng.randint(1, n - 1)):
            w[i] = 0.0
    return w


def _filters(rng, R, no, nc):
    out = []
    for _ in range(rng.choice([0, 0, 1, 1, 2])):
        kinds = ["sort-objective", "cvar-objective"] + (["sort-constraint", "cvar-constraint"] if nc else [])
        kind = rng.choice(kinds)
        if kind.endswith("objective"):
            sort = sorted(set(rng.randrange(no) for _ in range(rng.randint(1, no))))
        else:
            sort = rng.randrange(nc)
        if kind.startswith("sort"):
            first = rng.randrange(R)
            opts = {"sort": sort, "first": first, "last": rng.randint(first, R - 1)}
        else:
            opts = {"sort": sort, "percentile": rng.randint(1, 8) / 8}
        out.append({"method": kind, "options": opts})
    return out


def _fmap(rng, n, nfilt):
    if nfilt == 0:
        return None if rng.random() < 0.8 else [rng.choice([-1, 3]) for _ in range(n)]
    if rng.random() < 0.15:
        return None
    return [rng.choice([-1, -1, nfilt + 1] + list(range(nfilt)) * 2) for _ in range(n)]


def _emap(rng, n, nest):
    if rng.random() < 0.25:
        return None
    return [rng.randrange(nest) for _ in range(n)]


def _table(rng, B, R, no, nc, density, full=False):
    table = []
    for _b in range(B):
        block = []
        for _r in range(R):
            if full:
                o = [rng.uniform(-4, 4) for _ in range(no)]
                c = [rng.uniform(-4, 4) for _ in range(nc)]
            else:
                o = [_dy(rng, -4, 4) for _ in range(no)]
                c = [_dy(rng, -4, 4) for _ in range(nc)]
            if rng.random() < density:
                for j in rng.sample(range(no + nc), rng.choice([1, 1, 1, min(2, no + nc)])):
                    if j < no:
                        o[j] = math.nan
                    else:
                        c[j - no] = math.nan
            block.append([o, c])
        table.append(block)
    return table


def _bounds(rng, nc):
    lb, ub = [], []
    for _ in range(nc):
        kind = rng.choice(["le", "ge", "eq", "both"])
        lo, hi = _dy(rng, -2, 0), _dy(rng, 1, 3)
        if kind == "le":
            lb.append(-math.inf); ub.append(hi)
        elif kind == "ge":
            lb.append(lo); ub.append(math.inf)
        elif kind == "eq":
            lb.append(lo); ub.append(lo)
        else:
            lb.append(lo); ub.append(hi)
    return lb, ub


def _vectors(rng, B):
    vs = []
    while len(vs) < B:
        v = [_dy(rng, -2, 2, 4), _dy(rng, -2, 2, 4)]
        if v not in vs:
            vs.append(v)
    return vs


def gen_one(rng, stream="main"):
    full = stream == "full"
    R = rng.choice([1, 2, 2, 3, 3, 4, 4, 5, 6, 8])
    no, nc = rng.randint(1, 3), rng.randint(0, 3)
    B = rng.choice([1, 1, 1, 2, 2, 3, 4])
    ests = rng.choice(EST_SETS)
    filters = _filters(rng, R, no, nc)
    lb, ub = _bounds(rng, nc)
    density = rng.choice([0, 0, 0.15, 0.3, 0.6])
    case = {
        "stream": stream, "R": R, "no": no, "nc": nc, "B": B,
        "as_matrix": B > 1 or rng.random() < 0.5,
        "w": _weights(rng, R, full), "ow": _weights(rng, no, full),
        "lb": lb, "ub": ub, "ests": ests,
        "oem": _emap(rng, no, len(ests)), "cem": _emap(rng, nc, len(ests)) if nc else None,
        "filters": filters,
        "ofm": _fmap(rng, no, len(filters)), "cfm": _fmap(rng, nc, len(filters)) if nc else None,
        "rmin": rng.choice([None, None, 0, 1] + list(range(R + 1))),
        "vectors": _vectors(rng, B),
        "table": _table(rng, B, R, no, nc, density, full),
    }
    # entry path: EnsembleEvaluator.calculate, or an evaluator / optimizer step whose FINISHED_EVALUATION event
    # carries the results; 'prelude': earlier evaluations of other vectors on the same EnsembleEvaluator object
    case["via"] = rng.choice(VIAS)
    case["prelude"] = []
    if case["via"] == "calculate" and rng.random() < 0.3:
        case["prelude"] = [[rng.randrange(B) for _ in range(rng.randint(1, 3))] for _ in range(rng.randint(1, 2))]
    if stream == "edge":
        # no successful realization carries weight in the first block: fail every positive-weight realization
        case["rmin"] = rng.choice([0, 0, 1])
        blk = case["table"][0]
        for r in range(R):
            if case["w"][r] > 0 or rng.random() < 0.3:
                blk[r][0][rng.randrange(no)] = math.nan
    return case


def gen_interleaved(rng):
    """several estimators and filters used in alternation (estimator map [0,1,0,1], filter maps that give neighbouring
    functions different weight rows): the position of a function within its estimator / filter group differs from its
    index; non-uniform weights, so that every row differs from every other"""
    case = gen_one(rng, "main")
    R = case["R"] = rng.choice([4, 5, 6, 8])
    no = case["no"] = rng.choice([3, 4])
    nc = case["nc"] = rng.choice([0, 2, 3, 4])
    case["stream"] = "interleaved"
    case["w"] = [rng.randint(1, 32) / 16 for _ in range(R)]
    case["ow"] = _weights(rng, no)
    case["lb"], case["ub"] = _bounds(rng, nc)
    case["ests"] = rng.choice([["mean", "stddev"], ["stddev", "mean"], ["mean", "mean"], ["mean", "stddev", "mean"]])
    ne = len(case["ests"])
    start = rng.randrange(ne)
    case["oem"] = [(start + j) % ne for j in range(no)]
    case["cem"] = [(start + 1 + j) % ne for j in range(nc)] if nc else None
    filters = []
    for k in range(rng.choice([2, 2, 3])):
        if k % 2 == 0:
            first = rng.randrange(R - 2)        # windows of at least two realizations (a stddev function needs two)
            filters.append({"method": "sort-objective",
                            "options": {"sort": [rng.randrange(no)], "first": first, "last": rng.randint(first + 1, R - 2)}})
        else:
            filters.append({"method": "cvar-objective", "options": {"sort": [rng.randrange(no)], "percentile": rng.randint(4, 7) / 8}})
    case["filters"] = filters
    nf = len(filters)
    pattern = [-1] + list(range(nf))
    off = rng.randrange(len(pattern))
    case["ofm"] = [pattern[(off + j) % len(pattern)] for j in range(no)]
    case["cfm"] = [pattern[(off + 2 + j) % len(pattern)] for j in range(nc)] if nc else None
    case["rmin"] = rng.choice([0, 1, 2])
    case["table"] = _table(rng, case["B"], R, no, nc, rng.choice([0, 0.1, 0.2]))
    return case


def gen_combined(rng):
    """a combined function+gradient request (calculate(compute_functions=True, compute_gradients=True), what gradient-based
    optimizers issue) in which perturbed evaluations fail: the FUNCTION result of the request -- flags, weights in force,
    values -- must be that of a functions-only request (function-level failures only), whatever happens to the
    perturbations; realizations that lose too many perturbations have finite unperturbed values and positive weight"""
    case = gen_one(rng, "main")
    while case["R"] < 2:
        case = gen_one(rng, "main")
    case["stream"] = "combined"
    R, no, nc = case["R"], case["no"], case["nc"]
    case["B"], case["as_matrix"], case["via"], case["prelude"] = 1, False, "combined", []
    case["vectors"] = case["vectors"][:1]
    case["table"] = _table(rng, 1, R, no, nc, rng.choice([0, 0, 0.15, 0.3]))
    if rng.random() < 0.5:
        case["w"] = [rng.randint(1, 32) / 16 for _ in range(R)]
    # mean estimators only: the stddev *gradient* estimator may abort the whole request where the function stage would not
    if "mean" not in case["ests"]:
        case["ests"] = ["mean"]
    k = case["ests"].index("mean")
    case["oem"] = [k] * no if k or rng.random() < 0.5 else None
    case["cem"] = ([k] * nc if k or rng.random() < 0.5 else None) if nc else None
    P = case["P"] = rng.randint(1, 4)
    case["pmin"] = rng.choice([None, 1, P] + list(range(1, P + 1)))
    pmin = P if case["pmin"] is None else case["pmin"]
    pfail = []
    for r in rng.sample(range(R), rng.randint(1, R)):
        # mostly: more failures than the threshold tolerates
        k = rng.randint(P - pmin + 1, P) if rng.random() < 0.75 else rng.randint(0, P - pmin)
        pfail += [[r, p] for p in rng.sample(range(P), k)]
    case["pfail"] = pfail
    case["rmin"] = rng.choice([0, 0, 1, 1] + list(range(R)))
    return case


def gen_late_failure(rng):
    """batches in which only later vectors have failed realizations (the first vector is clean), and NaNs that sit in
    constraint columns only"""
    case = gen_one(rng, "main")
    while case["R"] < 3 or len(case["filters"]) > 1:
        case = gen_one(rng, "main")
    case["stream"] = "late-failure"
    B = case["B"] = rng.choice([2, 3, 4])
    R, no, nc = case["R"], case["no"], case["nc"]
    case["as_matrix"] = True
    case["vectors"] = _vectors(rng, B)
    case["prelude"] = [[rng.randrange(B)]] if case["via"] == "calculate" and rng.random() < 0.3 else []
    table = _table(rng, B, R, no, nc, 0)
    for b in range(rng.randint(1, B - 1), B):
        for r in rng.sample(range(R), rng.randint(1, max(1, R - 1))):
            if nc and rng.random() < 0.7:
                table[b][r][1][rng.randrange(nc)] = math.nan          # a constraint column only
            else:
                table[b][r][0][rng.randrange(no)] = math.nan
    case["table"] = table
    if case["rmin"] is not None and rng.random() < 0.7:
        case["rmin"] = rng.choice([0, 1])
    return case


def _grid_cases():
    """Exhaustive: 2 realizations x 2 functions (2 objectives, or 1 objective + 1 constraint), every NaN mask
    over the 4 entries, every estimator map over {mean, stddev}, every filter map over {-1, 0} with one
    sort-objective and one cvar filter, two weight vectors."""
    vals = [[1.5, -2.25], [0.5, 3.0]]
    for shape in ("2obj", "1obj1con"):
        for mask in itertools.product([False, True], repeat=4):
            for emap in itertools.product([0, 1], repeat=2):
                for fmap in itertools.product([-1, 0], repeat=2):
                    for filt in ("sort", "cvar"):
                        for w in ([1.0, 1.0], [0.75, 0.25], [1.0, 0.0]):
                            tab = []
                            for r in range(2):
                                e = [math.nan if mask[2 * r + j] else vals[r][j] for j in range(2)]
                                tab.append([e, []] if shape == "2obj" else [[e[0]], [e[1]]])
                            f = ({"method": "sort-objective", "options": {"sort": [0], "first": 0, "last": 0}}
                                 if filt == "sort" else {"method": "cvar-objective", "options": {"sort": [0], "percentile": 0.75}})
                            two = shape == "2obj"
                            yield {"stream": "grid", "R": 2, "no": 2 if two else 1, "nc": 0 if two else 1, "B": 1,
                                   "as_matrix": False, "w": w, "ow": [1.0, 3.0] if two else [1.0],
                                   "lb": [] if two else [-math.inf], "ub": [] if two else [1.0],
                                   "ests": ["mean", "stddev"],
                                   "oem": list(emap) if two else [emap[0]], "cem": None if two else [emap[1]],
                                   "filters": [f],
                                   "ofm": list(fmap) if two else [fmap[0]], "cfm": None if two else [fmap[1]],
                                   "rmin": 0, "vectors": [[0.0, 0.0]], "table": [tab]}


def gen_cases(tier, rng):
    n_main, n_edge, n_full = (1150, 130, 50) if tier == "quick" else (24000, 3000, 1200)
    for _ in range(n_main):
        yield gen_one(rng, "main")
    for _ in range(n_edge):
        yield gen_one(rng, "edge")
    for _ in range(n_full):
        yield gen_one(rng, "full")
    for _ in range(120 if tier == "quick" else 2500):
        yield gen_interleaved(rng)
    for _ in range(100 if tier == "quick" else 2000):
        yield gen_late_failure(rng)
    for _ in range(150 if tier == "quick" else 3000):
        yield gen_combined(rng)
    if tier == "thorough":
        yield from _grid_cases()


# ---------------------------------------------------------------------------------------------------
# driver: the real code
_PLUGINS = {}


def _plugin_manager():
    """Fresh PluginManager with a scripted optimizer that asks for the functions of the vectors named in its options
    (one vector, or one batch) and returns."""
    from ropt.plugins import PluginManager
    if not _PLUGINS:
        import numpy as np
        from ropt.plugins.optimizer.base import Optimizer, OptimizerPlugin

        class BatchOptimizer(Optimizer):
            def __init__(self, config, callback):
                self._cb = callback
                self._x = np.array(config.optimizer.options["x"], dtype=np.float64)

            def start(self, initial_values):
                self._cb(self._x, return_functions=True, return_gradients=False)

            @property
            def allow_nan(self):
                return False

            @property
            def is_parallel(self):
                return True

        class BatchOptimizerPlugin(OptimizerPlugin):
            def create(self, config, callback):
                return BatchOptimizer(config, callback)

            def is_supported(self, method):
                return method.lower() == "batch"

        _PLUGINS["optimizer"] = BatchOptimizerPlugin
    pm = PluginManager()
    pm.add_plugin("optimizer", "verif01", _PLUGINS["optimizer"]())
    return pm


def _spell(method, k):
    """One of the valid spellings of an estimator method name (seeded change C01_k)."""
    return (method, method.upper(), "default/" + method, "Default/" + method.capitalize(),
            method.capitalize())[k % 5]


def build_config(case):
    cfg = {
        "variables": {"initial_values": [0.0] * len(case["vectors"][0])},
        "realizations": {"weights": case["w"]},
        "objectives": {"weights": case["ow"]},
        # method names are case-insensitive and may carry the plug-in prefix: spell them in several ways
        "function_estimators": [{"method": _spell(m, len(case["vectors"]) + len(case["w"]) + i)}
                                for i, m in enumerate(case["ests"])],
        "realization_filters": case["filters"],
    }
    if case.get("via") == "combined":
        cfg["gradient"] = {"number_of_perturbations": case["P"], "perturbation_magnitudes": 0.125, "seed": 7}
        if case["pmin"] is not None:
            cfg["gradient"]["perturbation_min_success"] = case["pmin"]
    if case["rmin"] is not None:
        cfg["realizations"]["realization_min_success"] = case["rmin"]
    if case["oem"] is not None:
        cfg["objectives"]["function_estimators"] = case["oem"]
    if case["ofm"] is not None:
        cfg["objectives"]["realization_filters"] = case["ofm"]
    if case["nc"]:
        nl = {"lower_bounds": case["lb"], "upper_bounds": case["ub"]}
        if case["cem"] is not None:
            nl["function_estimators"] = case["cem"]
        if case["cfm"] is not None:
            nl["realization_filters"] = case["cfm"]
        cfg["nonlinear_constraints"] = nl
    return cfg


def _propagate(block):
    out = []
    for o, c in block:
        if any(math.isnan(x) for x in o + c):
            out.append([[math.nan] * len(o), [math.nan] * len(c)])
        else:
            out.append([list(o), list(c)])
    return out


def _used_filters(case):
    used = set()
    n = len(case["filters"])
    for fm in (case["ofm"], case["cfm"] if case["nc"] else None):
        if fm is not None:
            used |= {k for k in fm if 0 <= k < n}
    return used


def _result_obs(r, nc):
    ev = r.evaluations
    objs = ev.objectives.tolist()
    cons = ev.constraints.tolist() if ev.constraints is not None else [[] for _ in objs]
    re_ = r.realizations
    f = r.functions
    return {
        "objs": objs, "cons": cons,
        "failed": [bool(x) for x in re_.failed_realizations],
        "ow": None if re_.objective_weights is None else re_.objective_weights.tolist(),
        "cw": None if re_.constraint_weights is None else re_.constraint_weights.tolist(),
        "functions": None if f is None else {
            "objs": f.objectives.tolist(),
            "cons": [] if f.constraints is None else f.constraints.tolist(),
            "w": float(f.weighted_objective)},
    }


def run_impl(case):
    import warnings

    import numpy as np
    from ropt.config.enopt import EnOptConfig
    from ropt.ensemble_evaluator import EnsembleEvaluator
    from ropt.evaluator import EvaluatorResult
    from ropt.exceptions import OptimizationAborted
    from ropt.plugins import PluginManager

    warnings.simplefilter("ignore")
    pm = _plugin_manager()
    cfg_dict = build_config(case)
    config = EnOptConfig.model_validate(cfg_dict)
    no, nc = case["no"], case["nc"]
    vectors = [tuple(v) for v in case["vectors"]]
    table = case["table"]
    pfail = case.get("pfail", [])
    requests = []

    def evaluator(variables, ctx):
        n = variables.shape[0]
        objs = np.empty((n, no))
        cons = np.empty((n, nc)) if nc else None
        for i in range(n):
            r = int(ctx.realizations[i])
            p = -1 if ctx.perturbations is None else int(ctx.perturbations[i])
            if p >= 0:
                # a perturbed evaluation of a combined request: finite (the unperturbed values of realization r shifted),
                # or failed when the case says so; it must not influence the function result
                bad = [r, p] in pfail
                objs[i] = [math.nan if bad or math.isnan(v) else v + 0.25 * (p + 1) for v in table[0][r][0]]
                if nc:
                    cons[i] = [math.nan if bad or math.isnan(v) else v - 0.5 * (p + 1) for v in table[0][r][1]]
                continue
            key = tuple(float(x) for x in variables[i])
            b = vectors.index(key) if key in vectors else -1
            requests.append([b if b >= 0 else 4999, r])
            if b < 0 or r >= len(table[b]):
                objs[i] = np.nan
                if nc:
                    cons[i] = np.nan
                continue
            objs[i] = table[b][r][0]
            if nc:
                cons[i] = table[b][r][1]
        return EvaluatorResult(objectives=objs, constraints=cons)

    obs = {"cfg": {"w": config.realizations.weights.tolist(), "ow": config.objectives.weights.tolist(),
                   "rmin": int(config.realizations.realization_min_success),
                   "pmin": int(config.gradient.perturbation_min_success)}}
    x = np.array(case["vectors"], dtype=np.float64)
    if not case["as_matrix"]:
        x = x[0]
    via = case.get("via", "calculate")
    try:
        if via == "combined":
            from ropt.results import FunctionResults
            ee = EnsembleEvaluator(config, None, evaluator, pm)
            results = ee.calculate(x, compute_functions=True, compute_gradients=True)
            obs["outcome"] = "results"
            obs["results"] = [_result_obs(r, nc) for r in results if isinstance(r, FunctionResults)]
        elif via == "calculate":
            ee = EnsembleEvaluator(config, None, evaluator, pm)
            for pre in case.get("prelude", []):
                # earlier evaluations on the same object (other vectors, other batch shapes) must leave no trace
                try:
                    ee.calculate(np.array([case["vectors"][i % len(case["vectors"])] for i in pre], dtype=np.float64),
                                 compute_functions=True, compute_gradients=False)
                except OptimizationAborted:
                    pass
            del requests[:]
            results = ee.calculate(x, compute_functions=True, compute_gradients=False)
            obs["outcome"] = "results"
            obs["results"] = [_result_obs(r, nc) for r in results]
        else:
            # through a plan step: the results are what an observer of FINISHED_EVALUATION receives
            from ropt.enums import EventType
            from ropt.plan import OptimizerContext, Plan
            delivered = []
            ctx = OptimizerContext(evaluator=evaluator, plugin_manager=pm)
            ctx.add_observer(EventType.FINISHED_EVALUATION, lambda e: delivered.append([_result_obs(r, nc) for r in e.data["results"]]))
            plan = Plan(ctx)
            if via == "evaluator-step":
                code = plan.run_step(plan.add_step("evaluator"), config=cfg_dict, variables=x)
            else:
                cfg_dict["optimizer"] = {"method": "verif01/batch", "options": {"x": x.tolist()}}
                code = plan.run_step(plan.add_step("optimizer"), config=cfg_dict)
            obs["exit"] = int(code.value)
            obs["deliveries"] = len(delivered)
            if delivered:
                obs["outcome"] = "results"
                obs["results"] = delivered[0]
            else:
                # an OptimizationAborted raised inside calculate() ends the step with its exit code, nothing is delivered
                obs["outcome"] = "abort"
                obs["code"] = obs["exit"]
    except OptimizationAborted as e:
        obs["outcome"] = "abort"
        obs["code"] = int(e.exit_code.value)
    except Exception as e:  # noqa: BLE001 - the observation is the exception class
        obs["outcome"] = "raise"
        obs["exc"] = type(e).__name__
    obs["requests"] = requests

    # the weight vectors the configured filters return for every block (real filter plug-in, public surface)
    used = _used_filters(case)
    fouts = []
    for block in table:
        prop = _propagate(block)
        o = np.array([row[0] for row in prop], dtype=np.float64).reshape(len(prop), no)
        c = np.array([row[1] for row in prop], dtype=np.float64).reshape(len(prop), nc) if nc else None
        outs = []
        for k, f in enumerate(case["filters"]):
            if k not in used:
                outs.append(None)
                continue
            flt = pm.get_plugin("realization_filter", method=f["method"]).create(config, k)
            try:
                outs.append(["w", flt.get_realization_weights(o, c).tolist()])
            except OptimizationAborted:
                outs.append(["abort"])
        fouts.append(outs)
    obs["fouts"] = fouts
    return obs


# ---------------------------------------------------------------------------------------------------
# Gallina printer
def _ekind(m):
    return {"mean": "Mean", "stddev": "Stddev", "default": "Mean"}[m.lower().rpartition("/")[2]]


def _rows(objs, cons):
    return cq.lst(f"({cq.oqs(o)}, {cq.oqs(c)})" for o, c in zip(objs, cons))


def _fout(f):
    if f is None:
        return "FNotCalled"
    if f[0] == "abort":
        return "FTooFew"
    return f"(FW {cq.qs(f[1])})"


def cfg_term(case, obs):
    c = obs["cfg"]
    return ("(mkcfg {w} {ow} {nc} {rmin} {pmin} {ests} {oem} {cem} {ofm} {cfm})".format(
        w=cq.qs(c["w"]), ow=cq.qs(c["ow"]), nc=cq.nat(case["nc"]), rmin=cq.nat(c["rmin"]), pmin=cq.nat(c["pmin"]),
        ests=cq.lst(_ekind(m) for m in case["ests"]),
        oem=cq.opt(case["oem"], cq.nats), cem=cq.opt(case["cem"] if case["nc"] else None, cq.nats),
        ofm=cq.opt(case["ofm"], cq.zs), cfm=cq.opt(case["cfm"] if case["nc"] else None, cq.zs)))


def magnitude(case):
    m = 1.0
    for block in case["table"]:
        for o, c in block:
            for x in o + c:
                if not math.isnan(x):
                    m = max(m, abs(x))
    return m


def _result_term(r):
    f = r["functions"]
    fn = "None" if f is None else f"(Some ({cq.oqs(f['objs'])}, {cq.oqs(f['cons'])}, {cq.oq(f['w'])}))"
    return (f"(mkobs {_rows(r['objs'], r['cons'])} {cq.bs(r['failed'])} {cq.opt(r['ow'], cq.qmat)} "
            f"{cq.opt(r['cw'], cq.qmat)} {fn})")


def coq_case(case, obs):
    if obs["outcome"] == "results":
        out = f"(ObsResults {cq.lst(_result_term(r) for r in obs['results'])})"
    elif obs["outcome"] == "abort":
        out = f"(ObsAbort {cq.z(obs['code'])})"
    else:
        out = "ObsRaise"
    table = cq.lst(_rows([row[0] for row in blk], [row[1] for row in blk]) for blk in case["table"])
    fouts = cq.lst(cq.lst(_fout(f) for f in outs) for outs in obs["fouts"])
    reqs = cq.lst(f"({cq.nat(b)}, {cq.nat(r)})" for b, r in obs["requests"])
    via = case.get("via", "calculate")
    step = "None" if via in ("calculate", "combined") or "exit" not in obs else \
        f"(Some ({cq.b(via == 'optimizer-step')}, {cq.z(obs['exit'])}))"
    return (f"(Build_case {cq.q(magnitude(case))} {cfg_term(case, obs)} {cq.qs(case['w'])} {cq.qs(case['ow'])} "
            f"{cq.nat(case['B'])} {table} {fouts} {reqs} {out} {step})")


# ---------------------------------------------------------------------------------------------------
# oracle: the property's predicate on the implementation's output (plain Python, no model)
def _isclose(a, b, scale):
    return abs(a - b) <= 1e-9 * scale + 1e-7 * abs(b)


def _method(case, emap, j):
    return _ekind(case["ests"][0 if emap is None else emap[j]])


def _estimate(kind, col, w, failed):
    """-> ('val', x) | ('abort',) | ('undef',)   (float arithmetic, the defining formula)"""
    w = [0.0 if f else x for f, x in zip(failed, w)]
    s = sum(w)
    if s == 0:
        return ("undef",)
    w = [x / s for x in w]
    col = [0.0 if f else x for f, x in zip(failed, col)]
    mean = sum(x * y for x, y in zip(col, w))
    if kind == "Mean":
        return ("val", mean)
    if sum(1 for x in w if x != 0) < 2:
        return ("abort",)
    n = sum(1 for x in w if x > 0)
    if n < 2:
        return ("undef",)
    return ("val", math.sqrt(n / (n - 1) * sum(y * (x - mean) ** 2 for x, y in zip(col, w))))


def oracle(case, obs):
    no, nc, R = case["no"], case["nc"], case["R"]
    nf = len(case["filters"])
    S = magnitude(case)
    cfgw, cfgow = obs["cfg"]["w"], obs["cfg"]["ow"]
    sw, sow = sum(case["w"]), sum(case["ow"])
    if any(not _isclose(x, r / sw, 1) for x, r in zip(cfgw, case["w"])) or \
            any(not _isclose(x, r / sow, 1) for x, r in zip(cfgow, case["ow"])):
        return {"clause": "configured-weights-normalised", "detail": obs["cfg"]}
    if obs["outcome"] == "raise":
        return {"clause": "unexpected-exception", "detail": obs.get("exc")}
    expect_abort = any(f is not None and f[0] == "abort" for outs in obs["fouts"] for f in outs)
    undefined = False
    reports = obs["results"] if obs["outcome"] == "results" else [None] * case["B"]
    for b, blk in enumerate(case["table"]):
        failed = [any(math.isnan(x) for x in o + c) for o, c in blk]
        r = reports[b] if b < len(reports) else None
        if obs["outcome"] == "results":
            if r is None:
                return {"clause": "one-result-per-vector", "detail": len(reports)}
            if r["failed"] != failed:
                return {"clause": "failed-iff-any-nan", "detail": {"vector": b, "got": r["failed"], "expected": failed}}
        gate_open = failed.count(False) >= obs["cfg"]["rmin"]
        if r is not None and (r["functions"] is not None) != gate_open:
            return {"clause": "reported-iff-enough-successes", "detail": {"vector": b, "failed": failed, "rmin": obs["cfg"]["rmin"]}}
        if not gate_open:
            continue
        if all(failed):
            if r is not None:
                f = r["functions"]
                if not all(math.isnan(x) for x in f["objs"] + f["cons"] + [f["w"]]):
                    return {"clause": "all-failed-is-nan", "detail": {"vector": b, "functions": f}}
            continue
        fouts = obs["fouts"][b]
        if any(f is not None and f[0] == "abort" for f in fouts):
            continue
        values = []
        for grp, n, fm, em, mat in (("objs", no, case["ofm"], case["oem"], "ow"),
                                    ("cons", nc, case["cfm"] if nc else None, case["cem"] if nc else None, "cw")):
            for j in range(n):
                k = fm[j] if fm is not None and 0 <= fm[j] < nf else None
                if k is None:
                    w = cfgw
                    if r is not None and r[mat] is not None and \
                            any(not _isclose(x, y, 1) for x, y in zip(r[mat][j], cfgw)):
                        return {"clause": "unfiltered-function-uses-configured-weights",
                                "detail": {"vector": b, "group": grp, "function": j, "row": r[mat][j], "configured": cfgw}}
                else:
                    w = fouts[k][1]
                    if r is not None and (r[mat] is None or any(not _isclose(x, y, 1) for x, y in zip(r[mat][j], w))):
                        return {"clause": "filtered-function-uses-its-filter-weights",
                                "detail": {"vector": b, "group": grp, "function": j, "filter": k}}
                col = [row[0 if grp == "objs" else 1][j] for row in blk]
                e = _estimate(_method(case, em, j), col, w, failed)
                if e[0] == "abort":
                    expect_abort = True
                elif e[0] == "undef":
                    undefined = True
                values.append((grp, j, e))
        if r is None:
            continue
        f = r["functions"]
        for grp, j, e in values:
            if e[0] != "val":
                continue
            got = f[grp][j]
            if math.isnan(got) or not _isclose(got, e[1], S):
                return {"clause": "value-is-normalised-weighted-estimate",
                        "detail": {"vector": b, "group": grp, "function": j, "got": got, "expected": e[1]}}
        if not any(e[0] == "undef" for g, j, e in values if g == "objs"):
            wo = sum(x * y for x, y in zip(cfgow, f["objs"]))
            if math.isnan(f["w"]) or not _isclose(f["w"], wo, S):
                return {"clause": "weighted-objective", "detail": {"vector": b, "got": f["w"], "expected": wo}}
    if obs["outcome"] == "abort":
        if obs["code"] != 1 or not (expect_abort or undefined):
            return {"clause": "unexpected-abort", "detail": obs.get("code")}
    elif expect_abort:
        return {"clause": "too-few-realizations-not-signalled", "detail": None}
    want = [[b, r] for b in range(case["B"]) for r in range(R)]
    if obs["requests"] != want:
        return {"clause": "batch-layout", "detail": obs["requests"][:12]}
    via = case.get("via", "calculate")
    if via in ("evaluator-step", "optimizer-step"):
        # the step delivers the results once and ends with TOO_FEW_REALIZATIONS iff some vector lacks its functions
        # (optimizer step without allow_nan: also when every realization of a vector failed)
        too_few = obs["outcome"] == "abort"
        if obs["outcome"] == "results":
            if obs["deliveries"] != 1:
                return {"clause": "step-delivers-results-once", "detail": obs["deliveries"]}
            too_few = any(r["functions"] is None for r in obs["results"]) or \
                (via == "optimizer-step" and obs["cfg"]["rmin"] < 1 and any(all(r["failed"]) for r in obs["results"]))
        done = EVAL_DONE if via == "evaluator-step" else OPT_DONE
        if obs["exit"] != (TOO_FEW if too_few else done):
            return {"clause": "step-exit-code", "detail": {"via": via, "exit": obs["exit"], "too_few": too_few}}
    return None


# ---------------------------------------------------------------------------------------------------
def _nfail(case):
    return sum(1 for blk in case["table"] for o, c in blk if any(math.isnan(x) for x in o + c))


def nontrivial(case, obs):
    stddev = any(_method(case, em, j) == "Stddev"
                 for n, em in ((case["no"], case["oem"]), (case["nc"], case["cem"])) for j in range(n))
    feats = [_nfail(case) > 0, len(set(case["w"])) > 1, bool(_used_filters(case)), stddev, case["B"] > 1]
    return sum(feats) >= 2 and obs["outcome"] != "raise"


def features(case, obs):
    nf = _nfail(case)
    return {"stream": case["stream"], "R": case["R"], "functions": f"{case['no']}+{case['nc']}", "B": case["B"],
            "failed": "0" if nf == 0 else ("1-2" if nf <= 2 else "3+"), "filters_used": len(_used_filters(case)),
            "outcome": obs["outcome"], "input": "2-D" if case["as_matrix"] else "1-D",
            "via": case.get("via", "calculate"), "prelude_calls": len(case.get("prelude", [])),
            "estimators": "+".join(case["ests"]), "filters": len(case["filters"])}


def known_signature(case, obs, violation):
    return None


def shrink(case):
    if case["B"] > 1:
        for b in range(case["B"]):
            yield {**case, "B": 1, "vectors": [case["vectors"][b]], "table": [case["table"][b]], "prelude": []}
    if case.get("prelude"):
        yield {**case, "prelude": []}
    if case.get("via", "calculate") not in ("calculate", "combined"):
        yield {**case, "via": "calculate"}
    for k in range(len(case.get("pfail", []))):
        yield {**case, "pfail": case["pfail"][:k] + case["pfail"][k + 1:]}
    for b, blk in enumerate(case["table"]):
        for r, (o, c) in enumerate(blk):
            for j, x in enumerate(o + c):
                if math.isnan(x) or x != 1.0:
                    tab = [[[list(oo), list(cc)] for oo, cc in bl] for bl in case["table"]]
                    if j < len(o):
                        tab[b][r][0][j] = 1.0
                    else:
                        tab[b][r][1][j - len(o)] = 1.0
                    yield {**case, "table": tab}
    if case["rmin"] not in (None, 0):
        yield {**case, "rmin": 0}


def search(rng, case):
    if case is None:
        for _ in range(1200):
            yield gen_one(rng, "main")
        return
    for _ in range(400):
        c = dict(case)
        c["table"] = _table(rng, case["B"], case["R"], case["no"], case["nc"], rng.choice([0, 0.2, 0.5]))
        yield c
    for _ in range(600):
        yield gen_one(rng, "main")


MANIFEST = {
    "level_text": ("Machine-checked Coq proofs (Props/C01.v, all for arbitrary ensemble sizes, masks and weights, by induction) about the "
                   "executable model of the function pipeline, Model/Ensemble.v -- the very definitions Chk_C01.check_case evaluates "
                   "against the real EnsembleEvaluator.calculate on every run.  C01_mean_spec: the model's mean equals dot(f, w)/sum(w) "
                   "over the surviving realizations (undefined, never a number, when no survivor carries weight).  C01_var_spec: its "
                   "variance equals N/(N-1) * sum w^_i (f_i - m)^2 over the survivors, N = survivors with positive weight (the "
                   "reported stddev is compared through its square).  C01_var_too_few: the TOO_FEW_REALIZATIONS abort is taken iff "
                   "fewer than _MIN_STDDEV_REALIZATIONS (regenerated from the source) surviving weights are non-zero.  "
                   "C01_survivor_values: NaN propagation leaves the survivors' rows untouched.  C01_weighted_objective: the weighted "
                   "objective is dot(objective weights, objectives).  C01_factorisation / C01_nothing_else: function j equals its "
                   "estimator applied to column j, its own weight row and the failure flags, so other columns, rows and estimator "
                   "entries cannot influence it.  C01_rows_in_force: after _calculate_filtered_realization_weights the row of function "
                   "j is the output of the filter its index map names and the configured weights otherwise, also next to filtered rows "
                   "(F01).  C01_layout / C01_batch_invariance: the request layout is the full (vector, realization) product and the "
                   "result for vector b of a batch is the result of evaluating b alone.  C01_reported_objectives / C01_reported_constraints "
                   "(end to end): whenever the model of _calculate_one_set_of_functions (NaN propagation, flags, filtered weights, gate, "
                   "estimator dispatch) reports values, function j is the renormalised weighted mean, resp. N/(N-1)-corrected variance, of "
                   "the RAW evaluator values of the surviving realizations under the weight row in force for j.  C01_example, "
                   "C01_example_reported: non-vacuity."),
    "level_note": ("All 12 theorems print 'Closed under the global context'; none is partial.  'Evaluation order does not influence the "
                   "numbers' has no theorem (the model is stateless, a statement would be vacuous); it is covered by the correspondence "
                   "only (earlier calculate calls on the same object).  Hypotheses: the weight row has one entry "
                   "per realization; C01_var_spec additionally assumes non-negative weights (the configuration guarantees it) and at "
                   "least two positive surviving weights (the complementary cases are C01_var_too_few and the 0/0 case).  "
                   "Trusted / modelled-not-verified: that Model/Ensemble.v is the code is not proved but checked on every run by the "
                   "in-Coq correspondence on sampled configurations (plus an exhaustive 2x2 grid in the thorough tier); the weight "
                   "vector each realization filter returns is an input observed from the real plug-in (what it must be is C04/C05); "
                   "float rounding is bridged by the tolerance |x-m| <= 1e-12 S + 1e-9 |m|; the square root of the stddev estimator is "
                   "not modelled (squares are compared); Python driver and literal printer.  Cases where no surviving realization "
                   "carries weight (0/0) are outside the quantifier: only flags, weights and the other functions are compared."),
    "technique": "Coq proof (list induction over Q with setoid rewriting under ==, on an executable Gallina model structured like the code) + in-Coq differential correspondence with the real EnsembleEvaluator",
    "design_ref": "DESIGN.md section 4, C01",
}
