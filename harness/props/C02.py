"""C02 -- stochastic gradient is exact on affine ensembles and zero on fixed variables.

Correspondence: on ONE EnsembleEvaluator object a sequence of requests is issued (function requests, gradient-only
requests, combined requests, batches; at the point under test and at other points; directly through
EnsembleEvaluator.calculate or through the optimizer callback of a real EnsembleOptimizer driven by a scripted optimizer
plug-in; optionally always through the same caller-owned buffer).  The LAST request is a gradient request at the
configured initial values; it is the one that is judged.  Ensembles are affine (plus some quadratic ones to exercise the
solver), perturbations come from an injected deterministic sampler plug-in, from every built-in sampler, or from several
samplers assigned per variable.  The reported perturbed variables, per-realization values (after NaN propagation), weights
in force, failure flags and gradients, the rows the user's evaluator actually received and the matrix the optimizer
callback returned go to Coq, where Check/Chk_C02.v re-runs Model/Gradient.v (certified exact least squares over Q) on them
and compares.  A second case kind calls the real _invert_linear_equations directly.
"""
from __future__ import annotations

import math
from fractions import Fraction

import coqio as cq

ID = "C02"
THEOREM_FILE = "Props/C02.v"
CHK_MODULE = "Check.Chk_C02"
CASE_TYPE = "Chk_C02.case"
CHECK_FN = "Chk_C02.check_case"
HEADER = "From Ropt Require Import Model.Gradient Gen.Generated."
SHARD_SIZE = 40
PARALLEL = True
KNOWN_ID = "C02:merged-gradient-scaled"

RULE = ("seeded random ensembles: 1..5 realizations, 1..4 variables with random masks (incl. a single free variable), "
        "1..6 perturbations, 1..3 objectives and 0..2 constraints, mean/stddev estimators configured through estimator lists of "
        "different order, with duplicates, unused entries, 'default' spelling and omitted index arrays, dyadic "
        "slopes/offsets/weights (weights with zeros; a stream with stddev estimators whose offsets 2^20..2^24 are huge compared "
        "with the O(1) realization-to-realization spread, and its mirror image with all values scaled by 2^-14..2^-20), NaN in unperturbed and perturbed slots (any column), "
        "perturbation_min_success / realization_min_success thresholds (also left to their defaults), magnitudes (scalar and "
        "per variable, absolute and relative), finite bounds that keep or clip the design and partly infinite bounds with every "
        "boundary type, optional VariableScaler, zero to two realization filters (sort/cvar on objectives or constraints; assigned to objectives only, to constraints "
        "only -- the other index array omitted -- or to both; together with configured zero weights; the evaluator honours the "
        "context's active flags in half of the cases) mapped "
        "to subsets of the functions, merged (shared perturbations; identical realizations with equal or unequal weights; also "
        "with fewer perturbations than free variables per realization) and per-realization estimation, and merged estimation "
        "with a stddev estimator (must be rejected).  Perturbations: injected deterministic designs (signed permutations of the "
        "unit vectors plus dyadic rows, shared or per realization), every built-in sampler (norm, uniform, truncnorm, sobol, "
        "halton, lhs) with int and tuple seeds (full-precision floats), and two or three samplers assigned per variable "
        "(several of one method, entries no variable uses).  Requests: the judged gradient request (combined or gradient-only) "
        "is preceded by 0-3 other requests on the same evaluator object -- functions at the same point (cached path), functions "
        "or combined requests at other points (also points that differ in fixed variables only, and points a tiny dyadic step "
        "2^-20 .. 2^-60 away, above and below the evaluator's same-point tolerance), gradient-only requests, batches "
        "whose first or other row is the point -- issued through EnsembleEvaluator.calculate (70-75 %) or through the optimizer "
        "callback of EnsembleOptimizer (scripted optimizer plug-in), in 30 % of the cases always through one re-used buffer; in "
        "25 % a second evaluator object for a different ensemble is built and used in between; the unperturbed failure pattern "
        "at the other points may differ.  Plus quadratic (non-affine) ensembles compared with the "
        "exact least-squares answer, a stream of rank-deficient / ill-conditioned designs (counted as trivial) and direct calls "
        "of _invert_linear_equations (incl. matrices between the 0.1 % truncation point and the 1 % bound).  Non-trivial = "
        "gradients were reported, the ensemble is affine, every contributing realization's reported difference matrix (free "
        "columns, successful rows) has full column rank with smallest squared singular value >= 1 % of the total (NumPy), and "
        "the case is outside the merged-estimation known finding; for _invert_linear_equations cases: the same bound on the "
        "matrix.  distinct = distinct case dictionaries.")
ASSUMPTIONS = [
    "the evaluator is a table-driven affine (or quadratic) function of (variables, realization) that returns NaN in the generated failure slots; in half of the cases it honours the context and returns 0 for entries flagged inactive (like the evaluator of ropt's own test-suite), otherwise it computes every entry; it is deterministic, and its failure pattern for unperturbed rows depends on the point of the request sequence only",
    "NumPy/LAPACK singular values of the reported difference matrices are used to decide (through the model's own 99.9 % rule with the generated SVD_TOLERANCE) whether a value comparison is made, and to classify cases as non-trivial (1 % bound)",
    "merged estimation is generated where the property speaks about it (shared perturbations with a common set of successful rows, or identical realizations) and, as trivial cases, with fewer perturbations than free variables; inside the known finding the reported gradient must equal the one-sided-weight stacked solve the finding describes",
    "same point: two vectors of one request sequence are the same point iff they agree within the evaluator's documented test (absolute 1e-15); the other points are 1/8 or more away, or a tiny dyadic step (2^-20 .. 2^-46, above the test: another point whose cached function values must not be used; 2^-51 .. 2^-60, below it: the same point, the resulting error is far below the comparison tolerance)",
    "when a gradient-only request is answered from cached function results, the function results in force are those of the latest function request at exactly that vector on the same evaluator (the evaluator is deterministic, so any of them is the same)",
]
TRUSTED = [
    "LAPACK SVD inside _invert_linear_equations is an oracle: the model solves the same least-squares problem exactly (certified normal equations) and the two are compared numerically on every case",
    "float rounding: exact-rational model + tolerance |x-m| <= 1e-12*S + 1e-9*|m| with S = largest input magnitude / smallest singular value; stddev rows compare sigma^2 and sigma*grad sigma with S*(1+sigma) in place of S (not S^2: huge offsets with a small spread do not widen the comparison)",
    "the scripted optimizer plug-in and the injected sampler plug-in of the harness (they only forward the generated request sequence / design)",
]

METHODS = ["norm", "uniform", "truncnorm", "sobol", "halton", "lhs"]
FILTERS = ["sort-objective", "cvar-objective", "sort-constraint", "cvar-constraint"]

# request sequences issued on ONE evaluator object; the LAST request is the gradient request under test at point 0
# (= the configured initial values), the others are its history.  op = [kind, points, batch]: kind "f" (functions),
# "g" (gradient only), "fg" (both); points index the case's point list; batch = the vectors are passed as a matrix.
REQUESTS = [
    ("combined", 30, [], "fg"),
    ("functions-then-gradient", 18, [["f", [0], False]], "g"),
    ("gradient-only-nothing-cached", 5, [], "g"),
    ("functions-elsewhere-then-gradient", 8, [["f", [1], False]], "g"),
    ("combined-elsewhere-then-combined", 4, [["fg", [1], False]], "fg"),
    ("combined-twice", 3, [["fg", [0], False]], "fg"),
    ("gradient-twice-on-one-cache", 4, [["f", [0], False], ["g", [0], False]], "g"),
    ("functions-here-then-elsewhere", 4, [["f", [0], False], ["f", [1], False]], "g"),
    ("functions-elsewhere-then-here", 4, [["f", [1], False], ["f", [0], False]], "g"),
    ("cache-reset-by-combined-elsewhere", 4, [["f", [0], False], ["fg", [1], False]], "g"),
    ("gradient-elsewhere-then-here", 3, [["f", [0], False], ["g", [1], False]], "g"),
    ("batch-first-row-is-the-point", 4, [["f", [0, 1], True]], "g"),
    ("batch-other-row-is-the-point", 4, [["f", [1, 0], True]], "g"),
    ("batch-of-one", 2, [["f", [0], True]], "g"),
    ("random", 6, None, None),
]
ERRORS = (ValueError, ZeroDivisionError, FloatingPointError, ArithmeticError)


# ---------------------------------------------------------------------------------------------------
# generators
# ---------------------------------------------------------------------------------------------------
def _dy(rng, lo, hi, den):
    return rng.randint(int(lo * den), int(hi * den)) / den


def _weights(rng, n, equal=False):
    if equal:
        c = rng.choice([0.25, 0.5, 1.0, 2.0])
        w = [c if rng.random() < 0.8 else 0.0 for _ in range(n)]
        if not any(w):
            w[rng.randrange(n)] = c
        return w
    mode = rng.random()
    if mode < 0.3:
        return [1.0] * n
    w = [rng.choice([0.0, 0.25, 0.5, 0.75, 1.0, 1.5, 2.0]) for _ in range(n)]
    if not any(w):
        w[rng.randrange(n)] = 1.0
    return w


def _design(rng, P, V, free_idx):
    """P x V sample matrix: signed permutation of the free unit vectors first, then dyadic rows."""
    rows = []
    order = list(free_idx)
    rng.shuffle(order)
    for k in range(P):
        row = [0.0] * V
        if k < len(order) and rng.random() < 0.85:
            row[order[k]] = rng.choice([1.0, -1.0, 0.5, -0.5, 1.0, -1.0])
            if rng.random() < 0.3:
                for j in range(V):
                    if j != order[k] and rng.random() < 0.4:
                        row[j] = rng.choice([0.25, -0.25, 0.5, -0.5])
        else:
            row = [rng.choice([-1.0, -0.75, -0.5, -0.25, 0.25, 0.5, 0.75, 1.0]) for _ in range(V)]
        rows.append(row)
    rng.shuffle(rows)
    return rows


def _gen_request(rng, V, free_idx, favour_split=False, request=None):
    """request sequence, the points it visits, and how it is issued"""
    names = [r[0] for r in REQUESTS]
    if request is None:
        if favour_split and rng.random() < 0.5:
            request = rng.choice(["functions-then-gradient", "gradient-twice-on-one-cache", "batch-first-row-is-the-point",
                                  "functions-elsewhere-then-here"])
        else:
            request = rng.choices(names, weights=[r[1] for r in REQUESTS])[0]
    _, _, ops, final = REQUESTS[names.index(request)]
    if ops is None:
        ops = []
        for _ in range(rng.randint(1, 3)):
            kind = rng.choice(["f", "f", "g", "fg", "F"])
            if kind == "F":
                ops.append(["f", [rng.randrange(3) for _ in range(rng.randint(1, 3))], True])
            else:
                ops.append([kind, [rng.randrange(3)], False])
        final = rng.choice(["g", "g", "fg"])
    via = "optimizer" if rng.random() < 0.25 else "evaluator"
    points = []
    for _ in range(2):
        d = [0.0] * V
        for i in range(V):
            if i in free_idx or (via == "evaluator" and rng.random() < 0.4):
                d[i] = rng.choice([-1.0, -0.5, -0.25, -0.125, 0.125, 0.25, 0.5, 1.0, 0.0])
        if all(d[i] == 0.0 for i in free_idx):
            d[rng.choice(list(free_idx))] = rng.choice([-0.5, 0.25, 1.0])
        points.append(d)
    if points[1] == points[0]:
        points[1] = [-v for v in points[0]]
    fixed_idx = [i for i in range(V) if i not in free_idx]
    if rng.random() < 0.2:
        # a point a tiny dyadic step away from the initial values: above the evaluator's same-point tolerance (1e-15) it is
        # another point (its cached function values must not be used), below it it is the same point
        d = [0.0] * V
        idx = rng.choice(list(free_idx) if via == "optimizer" or rng.random() < 0.8 else list(range(V)))
        d[idx] = rng.choice([-1.0, 1.0]) * 2.0 ** -rng.choice([20, 20, 26, 32, 40, 46, 51, 54, 60])
        points[0] = d
    elif via == "evaluator" and fixed_idx and rng.random() < 0.35:
        # a point that differs from the initial values in fixed variables only (what a nested optimization produces)
        d = [0.0] * V
        d[rng.choice(fixed_idx)] = rng.choice([-1.0, -0.25, 0.5, 1.0])
        points[0] = d
    return {"request": request, "ops": [list(o) for o in ops], "final": final, "via": via, "points": points,
            "reuse_buffer": rng.random() < 0.3, "decoy": rng.random() < 0.25, "lazy": rng.random() < 0.5}


def _gen_samplers(rng, P, V, R, free_idx, sampler, shared_all, multi):
    """sampler section of a case.  single: one sampler for all variables; multi: 2-3 configured samplers (injected designs
    and built-in methods, also several of the same method and entries that no variable uses) assigned per variable"""
    def one(kind, shared):
        if kind == "inject":
            return {"kind": "inject", "shared": shared, "design": [_design(rng, P, V, free_idx) for _ in range(1 if shared else R)]}
        return {"kind": "builtin", "method": kind, "shared": shared}
    seed = rng.randint(0, 10 ** 6) if rng.random() < 0.7 else [rng.randint(0, 99), rng.randint(0, 10 ** 6)]
    if not multi:
        if sampler == "inject":
            shared = shared_all if shared_all is not None else rng.random() < 0.25
        else:
            shared = shared_all if shared_all is not None else rng.random() < 0.3
        s = one(sampler, shared)
        s["seed"] = seed
        return s
    n = rng.choice([2, 2, 3])
    kinds = [rng.choice(["inject", "inject", "inject", sampler if sampler != "inject" else rng.choice(METHODS)]) for _ in range(n)]
    if rng.random() < 0.3:
        kinds[1] = kinds[0]                       # several samplers of the same method
    lst = [one(k, shared_all if shared_all is not None else rng.random() < 0.3) for k in kinds]
    used = list(range(n))
    if rng.random() < 0.3:
        used.remove(rng.randrange(n))             # a configured sampler that no variable uses
    assign = [rng.choice(used) for _ in range(V)]
    return {"kind": "multi", "list": lst, "assign": assign, "seed": seed, "shared": all(s["shared"] for s in lst)}


def _gen_estimators(rng, stds, no, merge):
    """function_estimators section: the configured list (order, duplicates, unused entries, spellings) and the index arrays
    (None = field omitted: every function uses entry 0)"""
    if not any(stds):
        layout = rng.choice([None, ["mean"], ["default"], ["mean", "mean"], ["default", "mean"]] if merge else
                            [None, ["mean"], ["default"], ["mean", "stddev"], ["stddev", "mean"], ["mean", "mean"]])
    else:
        layout = rng.choice([["mean", "stddev"], ["stddev", "mean"], ["mean", "stddev", "mean"], ["stddev", "default", "stddev"],
                             ["default", "stddev"]])
    if layout is None:
        return {"layout": None, "obj": None, "con": None}
    def pick(is_std):
        return rng.choice([k for k, m in enumerate(layout) if (m == "stddev") == is_std])
    idx = [pick(s) for s in stds]
    obj, con = idx[:no], idx[no:]
    if all(v == 0 for v in obj) and rng.random() < 0.5:
        obj = None
    if con and all(v == 0 for v in con) and rng.random() < 0.5:
        con = None
    return {"layout": layout, "obj": obj, "con": con if con else None}


def gen_ens(rng, *, sampler="inject", merge=None, affine=True, edge=False, small=False, simple=False, request=None,
            std_with_merge=False, values=None, filter_focus=False):
    V = rng.choice([1, 2, 2, 3] if small else [1, 2, 2, 3, 3, 4])
    R = rng.choice([1, 2, 2, 3] if small else [1, 2, 3, 3, 4, 5])
    mask = None
    if rng.random() < 0.6:
        mask = [rng.random() < 0.65 for _ in range(V)]
        if not any(mask):
            mask[rng.randrange(V)] = True
    free_idx = [i for i in range(V) if mask is None or mask[i]]
    nfree = len(free_idx)
    if edge or (merge and rng.random() < 0.25):
        # fewer perturbations than free variables per realization (what merge_realizations is meant for)
        P = max(1, nfree - rng.choice([0, 1, 1]))
    elif sampler == "inject":
        P = min(6, nfree + rng.choice([0, 0, 1, 1, 2, 3]))
    else:
        P = min(6, nfree + rng.choice([1, 2, 2, 3]))
    no = rng.choice([1, 1, 2] if small else [1, 1, 2, 3])
    nc = rng.choice([0, 0, 1] if small else [0, 0, 1, 2])
    if filter_focus:
        R = max(R, rng.choice([2, 3, 4]))
        nc = rng.choice([1, 1, 2, 0])
    nf = no + nc
    if merge is None:
        merge = False
    stds = [False] * nf
    if not merge and not simple and R >= 2:
        stds = [rng.random() < 0.3 for _ in range(nf)]
    merge_mode = None
    if merge:
        merge_mode = rng.choice(["shared", "shared", "identical", "identical-unequal"])
        if std_with_merge:       # a stddev estimator together with merge_realizations: the configuration must be rejected
            stds = [rng.random() < 0.5 for _ in range(nf)]
            stds[rng.randrange(nf)] = True
    weights = _weights(rng, R, equal=(merge_mode == "identical"))
    ow = [rng.choice([0.0, 0.25, 0.5, 1.0, 1.0, 2.0]) for _ in range(no)]
    if not any(ow):
        ow[0] = 1.0
    den = 16
    slopes = [[[_dy(rng, -3, 3, den) for _ in range(V)] for _ in range(nf)] for _ in range(R)]
    if merge_mode in ("identical", "identical-unequal") or (not merge and rng.random() < 0.05):
        slopes = [slopes[0] for _ in range(R)]
    offsets = [[_dy(rng, -3, 3, den) for _ in range(nf)] for _ in range(R)]
    if values is None and affine and rng.random() < 0.04:
        values = rng.choice(["large-offsets", "tiny"])
    if values is not None and not merge and R >= 2 and not any(stds):
        stds[rng.randrange(nf)] = True        # these regimes are about the stddev estimator's "no spread" shortcut
    if values == "large-offsets":
        # offsets that are huge compared with the realization-to-realization spread (all values stay exact floats)
        for j in range(nf):
            base = rng.choice([-1.0, 1.0]) * rng.choice([1.0, 1.25, 1.5, 1.75]) * 2.0 ** rng.choice([20, 21, 22, 23, 24])
            for r in range(R):
                offsets[r][j] += base
    elif values == "tiny":
        # everything small in absolute terms: an absolute "is the spread zero" test must not fire
        k = 2.0 ** -rng.choice([14, 17, 20])
        slopes = [[[v * k for v in row] for row in fr] for fr in slopes]
        offsets = [[v * k for v in row] for row in offsets]
    quad = None
    if not affine:
        quad = [[rng.choice([-1.0, -0.5, 0.25, 0.5, 1.0]) for _ in range(nf)] for _ in range(R)]
    x0 = [_dy(rng, -1, 1, 16) for _ in range(V)]
    # failures
    pf = 0.0 if simple else rng.choice([0.0, 0.0, 0.15, 0.3])
    rf = 0.0 if simple else rng.choice([0.0, 0.0, 0.2])
    pfail = [[rng.random() < pf for _ in range(P)] for _ in range(R)]
    rfail = [rng.random() < rf for _ in range(R)]
    if merge_mode == "shared":
        col = [rng.random() < pf for _ in range(P)]          # a failure hits the same perturbation everywhere
        pfail = [list(col) for _ in range(R)]
    failcol = [[rng.randrange(nf) for _ in range(P + 1)] for _ in range(R)]
    pmin = rng.randint(1, P) if rng.random() < 0.85 else None
    if merge_mode == "shared":
        pmin = 1
    rmin = rng.choice([0, 1, 1, rng.randint(0, R), None])
    # the failure pattern of the unperturbed evaluations at the other points of the request sequence
    rfail_alt = [list(rfail) if rng.random() < 0.5 else [rng.random() < 0.25 for _ in range(R)] for _ in range(2)]
    # samplers
    multi = (not simple) and V >= 2 and rng.random() < 0.15
    samp = _gen_samplers(rng, P, V, R, free_idx, sampler, True if merge_mode == "shared" else None, multi)
    if rng.random() < 0.5:
        magnitudes = rng.choice([0.125, 0.25, 0.5])
    else:
        magnitudes = [rng.choice([0.125, 0.25, 0.5]) for _ in range(V)]
    bounds = None
    boundary = None
    ptypes = None
    r = rng.random()
    if r < 0.2:      # wide bounds: the design is kept
        bounds = [[v - rng.choice([2.0, 4.0]) for v in x0], [v + rng.choice([2.0, 4.0]) for v in x0]]
        boundary = rng.choice([1, 2, 3])
    elif r < 0.4:    # tight bounds: the design is clipped / mirrored (NONE keeps it)
        bounds = [[v - rng.choice([0.0625, 0.125, 0.25, 1.0]) for v in x0], [v + rng.choice([0.0625, 0.125, 0.25, 1.0]) for v in x0]]
        boundary = rng.choice([1, 2, 3]) if rng.random() < 0.5 else [rng.choice([1, 2, 3]) for _ in range(V)]
    elif r < 0.5:    # one-sided / partly infinite bounds
        lo, hi = [], []
        for v in x0:
            k = rng.choice(["lower", "upper", "both", "none"])
            lo.append(v - rng.choice([0.0625, 0.25, 1.0]) if k in ("lower", "both") else -math.inf)
            hi.append(v + rng.choice([0.0625, 0.25, 1.0]) if k in ("upper", "both") else math.inf)
        bounds = [lo, hi]
        boundary = rng.choice([1, 2, 3]) if rng.random() < 0.5 else [rng.choice([1, 2, 3]) for _ in range(V)]
    if bounds is not None and all(math.isfinite(v) for v in bounds[0] + bounds[1]) and rng.random() < 0.35:
        ptypes = rng.choice([2, [rng.choice([1, 2]) for _ in range(V)]])      # relative perturbation magnitudes
    scaler = None
    if rng.random() < 0.3:
        scaler = {"scales": [rng.choice([0.5, 2.0, 4.0, 1.0]) for _ in range(V)],
                  "offsets": [_dy(rng, -1, 1, 4) for _ in range(V)] if rng.random() < 0.6 else None}
    filt = None
    if merge_mode in (None, "shared") and not simple and R >= 2 and (filter_focus or rng.random() < 0.25):
        filt = []
        for _ in range(rng.choice([1, 1, 2])):
            method = rng.choice(FILTERS if nc else FILTERS[:2])
            if filter_focus and rng.random() < 0.6:
                method = rng.choice(["cvar-constraint", "cvar-constraint", "cvar-objective"] if nc else ["cvar-objective"])
            on_obj = method.endswith("objective")
            if method.startswith("sort"):
                first = rng.randint(0, R - 1)
                opts = {"sort": [rng.randrange(no)] if on_obj else rng.randrange(nc), "first": first, "last": rng.randint(first, R - 1)}
            else:
                opts = {"sort": [rng.randrange(no)] if on_obj else rng.randrange(nc), "percentile": rng.choice([0.25, 0.5, 0.75, 1.0])}
            filt.append({"method": method, "options": opts})
        pick = [-1] + list(range(len(filt))) * 2
        ofilt = [rng.choice(pick) for _ in range(no)]
        cfilt = [rng.choice(pick) for _ in range(nc)]
        # which side carries filters: constraints only / objectives only (the other index array is then OMITTED from the
        # configuration, not filled with -1) / both
        side = rng.choice(["both", "both", "objectives", "constraints"] if not filter_focus else
                          ["both", "objectives", "constraints", "constraints"]) if nc else "objectives"
        if side == "constraints":
            ofilt = None
            if all(v < 0 for v in cfilt):
                cfilt[rng.randrange(nc)] = 0
        elif side == "objectives":
            cfilt = None
            if all(v < 0 for v in ofilt):
                ofilt[0] = 0
        elif all(v < 0 for v in ofilt + cfilt):
            ofilt[0] = 0
        filt = {"filters": filt, "ofilt": ofilt, "cfilt": cfilt}
        if rng.random() < 0.5 and not all(weights):
            pass
        elif filter_focus or rng.random() < 0.5:
            # configured zero weights together with filters (cvar assigns its own weights, also to such realizations)
            weights = list(weights)
            weights[rng.randrange(R)] = 0.0
            if not any(weights):
                weights[rng.randrange(R)] = 1.0
    case = {"kind": "ens", "V": V, "R": R, "P": P, "no": no, "nc": nc, "x0": x0, "mask": mask, "weights": weights,
            "ow": ow, "stds": stds, "slopes": slopes, "offsets": offsets, "quad": quad, "pmin": pmin, "rmin": rmin,
            "merge": bool(merge), "merge_mode": merge_mode, "sampler": samp, "magnitudes": magnitudes, "bounds": bounds,
            "boundary": boundary, "ptypes": ptypes, "pfail": pfail, "rfail": rfail, "rfail_alt": rfail_alt, "failcol": failcol,
            "scaler": scaler, "filter": filt, "estimators": _gen_estimators(rng, stds, no, bool(merge)),
            "values": values or "O(1)"}
    case.update(_gen_request(rng, V, free_idx, favour_split=filt is not None, request=request))
    if filter_focus:
        case["lazy"] = rng.random() < 0.85
    return case


def gen_ls(rng, *, between=False, full=False):
    n = rng.choice([1, 2, 2, 3, 3, 4])
    m = n + rng.choice([0, 1, 1, 2, 3])
    if full:
        A = [[rng.gauss(0, 1) * 0.25 for _ in range(n)] for _ in range(m)]
    else:
        A = [[_dy(rng, -1, 1, 8) * 0.25 for _ in range(n)] for _ in range(m)]
    if between and n >= 2:
        # shrink one column so that its energy share falls between the 0.1 % and the 1 % mark
        f = rng.choice([0.0625, 0.0625, 0.03125])
        for row in A:
            row[-1] *= f
    a = [_dy(rng, -3, 3, 16) for _ in range(n)]
    consistent = rng.random() < 0.6
    b = [sum(Fraction(x) * Fraction(y) for x, y in zip(row, a)) for row in A]
    b = [float(v) for v in b]
    if not consistent:
        b = [v + _dy(rng, -1, 1, 16) * 0.125 for v in b]
    return {"kind": "ls", "n": n, "A": A, "b": b, "a": a if consistent else None}


def gen_cases(tier, rng):
    quick = tier == "quick"
    n_inject = 900 if quick else 9000
    n_builtin = 144 if quick else 1800
    n_quad = 100 if quick else 1200
    n_merge = 120 if quick else 1400
    n_edge = 60 if quick else 800
    n_ls = 200 if quick else 2000
    n_regime = 70 if quick else 800
    n_filter = 90 if quick else 1000
    plan = (["regime"] * n_regime + ["filter"] * n_filter + ["inject"] * n_inject + ["builtin"] * n_builtin + ["quad"] * n_quad + ["merge"] * n_merge
            + ["edge"] * n_edge + ["ls"] * n_ls)
    rng.shuffle(plan)          # spreads the expensive full-precision cases evenly over the shards
    k_builtin = 0
    for kind in plan:
        if kind == "inject":
            yield gen_ens(rng)
        elif kind == "builtin":
            k_builtin += 1
            yield gen_ens(rng, sampler=METHODS[k_builtin % len(METHODS)], small=True)
        elif kind == "filter":
            # realization filters versus the activity flags handed to an evaluator that skips inactive entries
            yield gen_ens(rng, filter_focus=True, small=rng.random() < 0.5)
        elif kind == "regime":
            yield gen_ens(rng, values=rng.choice(["large-offsets", "large-offsets", "tiny"]), small=rng.random() < 0.5)
        elif kind == "quad":
            yield gen_ens(rng, affine=False)
        elif kind == "merge":
            if rng.random() < 0.06:
                yield gen_ens(rng, merge=True, std_with_merge=True, simple=True)
            elif rng.random() < 0.2:
                yield gen_ens(rng, sampler=rng.choice(METHODS), merge=True, small=True)
            else:
                yield gen_ens(rng, merge=True)
        elif kind == "edge":
            yield gen_ens(rng, edge=True)
        else:
            r = rng.random()
            yield gen_ls(rng, between=(0.5 < r < 0.75), full=(r > 0.9))


# ---------------------------------------------------------------------------------------------------
# driver: the real code
# ---------------------------------------------------------------------------------------------------
def _request(case):
    """(pre-ops, final op, via, re-use the caller's buffer); corpus cases written before request sequences existed carry
    only the flag 'split'"""
    if "ops" in case:
        return case["ops"], case["final"], case.get("via", "evaluator"), bool(case.get("reuse_buffer"))
    if case.get("split"):
        return [["f", [0], False]], "g", "evaluator", False
    return [], "fg", "evaluator", False


def _filters(case):
    f = case.get("filter")
    if f is None:
        return None
    if "filters" in f:
        return f
    return {"filters": [{"method": f["method"], "options": f["options"]}], "ofilt": f["ofilt"], "cfilt": f["cfilt"]}


def _plugin_manager(script=None):
    import numpy as np
    from ropt.plugins import PluginManager
    from ropt.plugins.optimizer.base import Optimizer, OptimizerPlugin
    from ropt.plugins.sampler.base import Sampler, SamplerPlugin

    class InjectedSampler(Sampler):
        def __init__(self, cfg, idx, mask, rng):
            self._cfg, self._idx, self._mask = cfg, idx, mask
            self._design = np.array(cfg.samplers[idx].options["design"], dtype=np.float64)

        def generate_samples(self):
            d = self._design
            if self._cfg.samplers[self._idx].shared:
                d = np.repeat(d[:1], self._cfg.realizations.weights.size, axis=0)
            if self._mask is not None:
                d = np.where(self._mask, d, 0.0)
            return np.array(d, dtype=np.float64)

    class InjectedSamplerPlugin(SamplerPlugin):
        def create(self, cfg, idx, mask, rng):
            return InjectedSampler(cfg, idx, mask, rng)

        def is_supported(self, method):
            return method.lower() == "inject"

    class ScriptedOptimizer(Optimizer):
        """issues the case's request sequence through the optimizer callback"""
        def __init__(self, config, callback):
            self._cb = callback

        def start(self, initial_values):
            script(self._cb, initial_values)

        @property
        def allow_nan(self):
            return False

        @property
        def is_parallel(self):
            return False

    class ScriptedOptimizerPlugin(OptimizerPlugin):
        def create(self, config, callback):
            return ScriptedOptimizer(config, callback)

        def is_supported(self, method):
            return method.lower() == "script"

    pm = PluginManager()
    pm.add_plugin("sampler", "verif", InjectedSamplerPlugin())
    if script is not None:
        pm.add_plugin("optimizer", "verif", ScriptedOptimizerPlugin())
    return pm


def _sampler_cfg(s):
    if s["kind"] == "inject":
        return {"method": "verif/inject", "options": {"design": s["design"]}, "shared": s["shared"]}
    return {"method": s["method"], "shared": s["shared"]}


def _config_dict(case):
    no, nc = case["no"], case["nc"]
    stds = case["stds"]
    cfg = {
        "variables": {"initial_values": case["x0"]},
        "realizations": {"weights": case["weights"]},
        "objectives": {"weights": case["ow"]},
        "gradient": {"number_of_perturbations": case["P"],
                     "perturbation_magnitudes": case["magnitudes"], "merge_realizations": case["merge"]},
    }
    if case["rmin"] is not None:
        cfg["realizations"]["realization_min_success"] = case["rmin"]
    if case["pmin"] is not None:
        cfg["gradient"]["perturbation_min_success"] = case["pmin"]
    if nc:
        cfg["nonlinear_constraints"] = {"lower_bounds": [0.0] * nc, "upper_bounds": [1.0] * nc}
    est = case.get("estimators")
    if est is None:              # cases written before estimator layouts existed
        cfg["function_estimators"] = [{"method": "mean"}] if case["merge"] else [{"method": "mean"}, {"method": "stddev"}]
        cfg["objectives"]["function_estimators"] = [1 if s else 0 for s in stds[:no]]
        if nc:
            cfg["nonlinear_constraints"]["function_estimators"] = [1 if s else 0 for s in stds[no:]]
    elif est["layout"] is not None:
        cfg["function_estimators"] = [{"method": m} for m in est["layout"]]
        if est["obj"] is not None:
            cfg["objectives"]["function_estimators"] = est["obj"]
        if nc and est["con"] is not None:
            cfg["nonlinear_constraints"]["function_estimators"] = est["con"]
    if case["mask"] is not None:
        cfg["variables"]["mask"] = case["mask"]
    if case["bounds"] is not None:
        cfg["variables"]["lower_bounds"] = case["bounds"][0]
        cfg["variables"]["upper_bounds"] = case["bounds"][1]
        cfg["gradient"]["boundary_types"] = case["boundary"]
    else:
        cfg["gradient"]["boundary_types"] = 1
    if case.get("ptypes") is not None:
        cfg["gradient"]["perturbation_types"] = case["ptypes"]
    s = case["sampler"]
    if s["kind"] == "multi":
        cfg["samplers"] = [_sampler_cfg(e) for e in s["list"]]
        cfg["gradient"]["samplers"] = s["assign"]
    else:
        cfg["samplers"] = [_sampler_cfg(s)]
    if "seed" in s:
        cfg["gradient"]["seed"] = s["seed"] if isinstance(s["seed"], int) else tuple(s["seed"])
    f = _filters(case)
    if f is not None:
        cfg["realization_filters"] = [{"method": e["method"], "options": e["options"]} for e in f["filters"]]
        if f["ofilt"] is not None:
            cfg["objectives"]["realization_filters"] = f["ofilt"]
        if nc and f["cfilt"] is not None:
            cfg["nonlinear_constraints"]["realization_filters"] = f["cfilt"]
    if _request(case)[2] == "optimizer":
        cfg["optimizer"] = {"method": "verif/script"}
    return cfg


def _propagate(rows):
    import numpy as np
    rows = np.array(rows, dtype=np.float64)
    bad = np.isnan(rows).any(axis=-1)
    rows[bad] = np.nan
    return rows


def run_ens(case):
    import warnings
    import numpy as np
    from ropt.config.enopt import EnOptConfig
    from ropt.ensemble_evaluator import EnsembleEvaluator
    from ropt.evaluator import EvaluatorResult
    from ropt.exceptions import ConfigError, OptimizationAborted
    from ropt.results import FunctionResults, GradientResults
    from ropt.transforms import OptModelTransforms, VariableScaler

    R, P, no, nc, V = case["R"], case["P"], case["no"], case["nc"], case["V"]
    nf = no + nc
    A = np.array(case["slopes"], dtype=np.float64)
    B = np.array(case["offsets"], dtype=np.float64)
    Q = None if case["quad"] is None else np.array(case["quad"], dtype=np.float64)
    ops, final, via, reuse = _request(case)
    rfails = [case["rfail"]] + list(case.get("rfail_alt") or [case["rfail"], case["rfail"]])
    state = {"pts": [0], "calls": [], "same0": {0}}
    lazy = bool(case.get("lazy"))

    def evaluator(variables, ctx):
        n = variables.shape[0]
        out = np.empty((n, nf))
        perts = ctx.perturbations
        pts = state["pts"]
        rec = {"real": [], "pert": [], "pt": []}
        for i in range(n):
            r = int(ctx.realizations[i])
            p = -1 if perts is None else int(perts[i])
            out[i] = A[r] @ variables[i] + B[r]
            if Q is not None:
                out[i] += Q[r] * float(np.sum(variables[i] ** 2))
            if lazy:
                # an evaluator that honours the context (like the one of ropt's own test-suite): entries flagged inactive are
                # not computed and come back as 0
                if ctx.active_objectives is not None:
                    out[i, :no] = np.where(np.asarray(ctx.active_objectives)[:, r], out[i, :no], 0.0)
                if nc and ctx.active_constraints is not None:
                    out[i, no:] = np.where(np.asarray(ctx.active_constraints)[:, r], out[i, no:], 0.0)
            # unperturbed rows are laid out vector by vector (R rows each); perturbed rows belong to the only vector
            k = pts[min(i // R, len(pts) - 1)] if p < 0 else pts[0]
            if (p < 0 and rfails[k][r]) or (p >= 0 and case["pfail"][r][p]):
                out[i, case["failcol"][r][p + 1]] = np.nan
            rec["real"].append(r), rec["pert"].append(p), rec["pt"].append(k)
        rec["vars"] = np.array(variables, dtype=np.float64)
        rec["out"] = out.copy()
        state["calls"].append(rec)
        return EvaluatorResult(objectives=out[:, :no].copy(), constraints=out[:, no:].copy() if nc else None)

    transforms = None
    if case["scaler"] is not None:
        sc = case["scaler"]
        transforms = OptModelTransforms(variables=VariableScaler(
            np.array(sc["scales"], dtype=np.float64),
            None if sc["offsets"] is None else np.array(sc["offsets"], dtype=np.float64)))

    def raw_tables(first_call):
        """what the evaluator returned (before NaN propagation) for the unperturbed vector at point 0 (latest call that
        evaluated it) and for the perturbations of the request under test, and the rows it received for the latter"""
        raw0 = evx0 = None
        for rec in reversed(state["calls"]):
            idx = [i for i in range(len(rec["real"])) if rec["pert"][i] < 0 and rec["pt"][i] in state["same0"]]
            if len(idx) >= R:
                idx = idx[-R:]
                raw0 = np.full((R, nf), np.nan)
                evx0 = np.full((R, V), np.nan)
                for i in idx:
                    raw0[rec["real"][i]] = rec["out"][i]
                    evx0[rec["real"][i]] = rec["vars"][i]
                break
        rawp = evx = None
        for rec in state["calls"][first_call:]:
            idx = [i for i in range(len(rec["real"])) if rec["pert"][i] >= 0]
            if idx:
                rawp = np.full((R, P, nf), np.nan)
                evx = np.full((R, P, V), np.nan)
                for i in idx:
                    rawp[rec["real"][i], rec["pert"][i]] = rec["out"][i]
                    evx[rec["real"][i], rec["pert"][i]] = rec["vars"][i]
        return raw0, evx0, rawp, evx

    with warnings.catch_warnings():
        warnings.simplefilter("ignore")
        config = EnOptConfig.model_validate(_config_dict(case), context=transforms)
        x = np.array(config.variables.initial_values, dtype=np.float64)
        free = np.ones(V, dtype=bool) if case["mask"] is None else np.array(case["mask"], dtype=bool)
        pts = [x] + [x + np.array(d, dtype=np.float64) for d in (case.get("points") or [])]
        # points within the evaluator's documented same-point tolerance of the initial values ARE that point
        same0 = {k for k in range(len(pts)) if np.allclose(pts[k], x, rtol=0.0, atol=1e-15)}
        for k in same0:
            if k < len(rfails):
                rfails[k] = rfails[0]
        state["same0"] = same0
        obs = {"x": x.tolist(), "cfg_weights": np.array(config.realizations.weights, dtype=np.float64).tolist(),
               "cfg_ow": np.array(config.objectives.weights, dtype=np.float64).tolist(),
               "pmin": int(config.gradient.perturbation_min_success), "rmin": int(config.realizations.realization_min_success)}
        buf = np.zeros(V if via == "evaluator" else int(free.sum()), dtype=np.float64)    # the caller's re-used buffer

        def vector(op):
            """the array handed in for a request: one vector (possibly the caller's re-used buffer) or a matrix"""
            rows = [pts[k] if via == "evaluator" else pts[k][free] for k in op[1]]
            if op[2]:
                return np.vstack(rows)
            if reuse:
                buf[...] = rows[0]
                return buf
            return rows[0].copy()

        def decoy():
            """a second evaluator object for a DIFFERENT ensemble (function values 2 f + 1, realization weights reversed and
            one of them zeroed) is built and asked for functions and then for the gradient at the same point just before
            the judged request: nothing of it may leak into the first object"""
            if not case.get("decoy"):
                return
            keep, kept_pts = len(state["calls"]), state["pts"]

            def other(variables, ctx):
                r = evaluator(variables, ctx)
                return EvaluatorResult(objectives=r.objectives * 2.0 + 1.0,
                                       constraints=None if r.constraints is None else r.constraints * 2.0 + 1.0)
            w = list(reversed(case["weights"]))
            pos = [i for i, v in enumerate(w) if v > 0]
            if len(pos) >= 2:
                w[pos[0]] = 0.0
            try:
                dcfg = EnOptConfig.model_validate(_config_dict({**case, "weights": w, "via": "evaluator"}), context=transforms)
                state["pts"] = [0]
                dee = EnsembleEvaluator(dcfg, transforms, other, _plugin_manager())
                dee.calculate(x.copy(), compute_functions=True, compute_gradients=False)
                dee.calculate(x.copy(), compute_functions=False, compute_gradients=True)
            except (OptimizationAborted,) + ERRORS:
                pass
            finally:
                del state["calls"][keep:]
                state["pts"] = kept_pts

        pre = []                 # result tuples of the history
        marks = {}
        final_op = [final, [0], False]
        outcome = {}
        try:
            EnsembleEvaluator(config, transforms, evaluator, _plugin_manager())
        except ConfigError:
            obs.update({"outcome": "config", "f0": np.zeros((R, nf)).tolist(), "fp": np.zeros((R, P, nf)).tolist(),
                        "X": np.zeros((R, P, V)).tolist()})
            return obs
        if via == "evaluator":
            ee = EnsembleEvaluator(config, transforms, evaluator, _plugin_manager())
            for op in ops:
                state["pts"] = op[1]
                try:
                    pre.append(ee.calculate(vector(op), compute_functions="f" in op[0], compute_gradients="g" in op[0]))
                except (OptimizationAborted,) + ERRORS:
                    pass
            decoy()
            marks["calls"] = len(state["calls"])
            state["pts"] = [0]
            try:
                outcome["res"] = ee.calculate(vector(final_op), compute_functions="f" in final, compute_gradients=True)
            except OptimizationAborted as e:
                outcome["abort"] = int(e.exit_code.value)
            except ERRORS + (np.linalg.LinAlgError,) as e:
                outcome["error"] = type(e).__name__
        else:
            from ropt.optimization import EnsembleOptimizer
            signalled = []

            def script(cb, initial_values):
                obs["seen_start"] = np.array(initial_values, dtype=np.float64).tolist()
                for op in ops:
                    state["pts"] = op[1]
                    try:
                        cb(vector(op), return_functions="f" in op[0], return_gradients="g" in op[0])
                    except (OptimizationAborted,) + ERRORS:
                        pass
                decoy()
                marks["calls"] = len(state["calls"])
                marks["signalled"] = len(signalled)
                state["pts"] = [0]
                fun, grad = cb(vector(final_op), return_functions="f" in final, return_gradients=True)
                outcome["cb"] = np.array(grad, dtype=np.float64).tolist()

            pm = _plugin_manager(script)
            ee = EnsembleEvaluator(config, transforms, evaluator, pm)
            eo = EnsembleOptimizer(config, ee, pm,
                                   signal_evaluation=lambda results=None: signalled.append(results) if results is not None else None)
            try:
                code = eo.start(x.copy())
                obs["opt_exit"] = int(code.value)
                if "signalled" not in marks:            # cannot happen: history errors are swallowed by the script
                    raise RuntimeError("the scripted optimizer did not reach the request under test")
                if len(signalled) > marks["signalled"]:
                    outcome["res"] = signalled[-1]
                else:
                    outcome["abort"] = int(code.value)
            except ERRORS + (np.linalg.LinAlgError,) as e:
                outcome["error"] = type(e).__name__
            pre = signalled[:marks.get("signalled", len(signalled))]

        raw0, evx0, rawp, evx = raw_tables(marks.get("calls", 0))
        if "res" not in outcome:
            out0 = _propagate(raw0) if raw0 is not None else np.full((R, nf), np.nan)
            outp = _propagate(rawp) if rawp is not None else np.full((R, P, nf), np.nan)
            obs.update({"outcome": "abort" if "abort" in outcome else "error", "exit_code": outcome.get("abort"),
                        "exception": outcome.get("error"), "f0": out0.tolist(), "fp": outp.tolist(),
                        "X": (evx if evx is not None else np.zeros((R, P, V))).tolist()})
            return obs
        res = outcome["res"]
        g = next(r for r in res if isinstance(r, GradientResults))
        f = next((r for r in res if isinstance(r, FunctionResults)), None)
        obs["path"] = "both" if f is not None else "cached"
        if f is None:
            # the gradient was computed from cached function results: they are those of the latest function request at x
            cands = [r for tup in pre for r in tup
                     if isinstance(r, FunctionResults)
                     and np.allclose(np.array(r.evaluations.variables), x, rtol=0.0, atol=1e-15)]
            if cands:
                f = cands[-1]
            else:
                # no function request at this point was ever made: whatever was used is stale; compare with a fresh evaluation
                obs["stale_cache"] = True
                state["pts"] = [0]
                try:
                    (f,) = EnsembleEvaluator(config, transforms, evaluator, _plugin_manager()).calculate(
                        x.copy(), compute_functions=True, compute_gradients=False)
                except (OptimizationAborted,) + ERRORS:
                    obs.update({"outcome": "error", "exception": "stale-cache", "f0": np.full((R, nf), np.nan).tolist(),
                                "fp": np.full((R, P, nf), np.nan).tolist(), "X": np.zeros((R, P, V)).tolist()})
                    return obs
                raw0, evx0, _, _ = raw_tables(marks.get("calls", 0))
    ev = g.evaluations
    f0 = np.array(f.evaluations.objectives)
    fp = np.array(ev.perturbed_objectives)
    if nc:
        f0 = np.hstack([f0, np.array(f.evaluations.constraints)])
        fp = np.concatenate([fp, np.array(ev.perturbed_constraints)], axis=-1)
    X = np.array(ev.perturbed_variables, dtype=np.float64)
    obs.update({
        "X": X.tolist(), "f0": f0.tolist(), "fp": fp.tolist(),
        "gx": np.array(ev.variables, dtype=np.float64).tolist(),
        "raw0": None if raw0 is None else raw0.tolist(), "rawp": None if rawp is None else rawp.tolist(),
        "evx": None if evx is None else evx.tolist(), "evx0": None if evx0 is None else evx0.tolist(),
        "cb": outcome.get("cb"),
        "failed_fn": [bool(v) for v in f.realizations.failed_realizations],
        "failed": [bool(v) for v in g.realizations.failed_realizations],
        # the weights in force are those of the FUNCTION results (they define the reported ensemble functions);
        # the gradient results must report the same rows (oracle clause "gradient-weights-differ")
        "ow_rows": None if f.realizations.objective_weights is None else np.array(f.realizations.objective_weights).tolist(),
        "cw_rows": None if f.realizations.constraint_weights is None else np.array(f.realizations.constraint_weights).tolist(),
        "g_ow_rows": None if g.realizations.objective_weights is None else np.array(g.realizations.objective_weights).tolist(),
        "g_cw_rows": None if g.realizations.constraint_weights is None else np.array(g.realizations.constraint_weights).tolist(),
        "fun": None if f.functions is None else
        (list(np.array(f.functions.objectives).tolist()) + (list(np.array(f.functions.constraints).tolist()) if nc else [])),
    })
    if g.gradients is None:
        obs["outcome"] = "none"
        return obs
    obs["outcome"] = "grad"
    G = np.array(g.gradients.objectives, dtype=np.float64)
    if nc:
        G = np.vstack([G, np.array(g.gradients.constraints, dtype=np.float64)])
    obs["grad"] = G.tolist()
    obs["wgrad"] = np.array(g.gradients.weighted_objective, dtype=np.float64).tolist()
    # singular values of the reported difference systems (LAPACK oracle; used by the model's own rule)
    succ = ~np.isnan(fp[:, :, 0]) & ~np.isnan(f0[:, :1])
    s2, Ds = [], []
    for r in range(R):
        D = (X[r] - x)[succ[r]][:, free]
        Ds.append(D)
        if obs["failed"][r] or D.shape[0] == 0:
            s2.append([])
            continue
        s2.append((np.linalg.svd(D, compute_uv=False) ** 2).tolist())
    obs["s2"] = s2
    s2m = []
    for j in range(nf):
        stack = [Ds[r] for r in range(R) if s2[r] and _weights_in_force(case, obs, j)[r] != 0]
        s2m.append((np.linalg.svd(np.vstack(stack), compute_uv=False) ** 2).tolist() if (case["merge"] and stack) else [])
    obs["s2m"] = s2m
    return obs


def run_ls(case):
    import numpy as np
    from ropt.ensemble_evaluator._gradient import _invert_linear_equations
    import warnings
    A = np.array(case["A"], dtype=np.float64)
    b = np.array(case["b"], dtype=np.float64)
    with warnings.catch_warnings():
        warnings.simplefilter("ignore")
        g = _invert_linear_equations(A, b)
    return {"g": np.array(g, dtype=np.float64).tolist(), "s2": (np.linalg.svd(A, compute_uv=False) ** 2).tolist()}


def run_impl(case):
    return run_ls(case) if case["kind"] == "ls" else run_ens(case)


# ---------------------------------------------------------------------------------------------------
# shared helpers on (case, obs)
# ---------------------------------------------------------------------------------------------------
def _free(case):
    return [True] * case["V"] if case["mask"] is None else [bool(m) for m in case["mask"]]


def _pmin(case, obs):
    return obs["pmin"] if "pmin" in obs else (case["pmin"] if case["pmin"] is not None else case["P"])


def _rmin(case, obs):
    return obs["rmin"] if "rmin" in obs else (case["rmin"] if case["rmin"] is not None else case["R"])


def _weights_in_force(case, obs, j):
    no = case["no"]
    rows = obs.get("ow_rows") if j < no else obs.get("cw_rows")
    if rows is None:
        return list(obs.get("cfg_weights", case["weights"]))
    return list(rows[j if j < no else j - no])


def _slopes_opt(case, r, j):
    """exact slope of realization r / function j in optimizer coordinates (Fractions)."""
    a = [Fraction(v) for v in case["slopes"][r][j]]
    if case["scaler"] is not None:
        a = [v * Fraction(s) for v, s in zip(a, case["scaler"]["scales"])]
    return a


def _bound_ok(s2, n):
    return len(s2) == n and n > 0 and sum(s2) > 0 and s2[-1] >= 0.01 * sum(s2)


def _sigma(case, obs, j):
    """standard deviation over the gradient weights (reported value when the failure sets agree)."""
    w = _weights_in_force(case, obs, j)
    failed = obs["failed"]
    if obs.get("fun") is not None and obs["failed"] == obs["failed_fn"] and not math.isnan(obs["fun"][j]):
        return abs(float(obs["fun"][j]))
    w = [0.0 if fl else float(v) for v, fl in zip(w, failed)]
    s = sum(w)
    if s == 0:
        return 0.0
    w = [v / s for v in w]
    fv = [0.0 if math.isnan(v[j]) else v[j] for v in obs["f0"]]
    N = sum(1 for v in w if v > 0)
    if N < 2:
        return 0.0
    m = sum(a * b for a, b in zip(w, fv))
    return math.sqrt(max(0.0, N / (N - 1) * sum(a * (b - m) ** 2 for a, b in zip(w, fv))))


def _scale(case, obs):
    vals = [1.0]
    for key in ("x", "X", "f0", "fp", "evx"):
        stack = [obs.get(key) or []]
        while stack:
            v = stack.pop()
            if isinstance(v, list):
                stack.extend(v)
            elif not math.isnan(v):
                vals.append(abs(v))
    big = max(vals)
    smin = [s[-1] for s in obs.get("s2", []) if s and s[-1] > 0]
    for s in obs.get("s2m") or []:
        if s and s[-1] > 0:
            smin.append(s[-1])
    amp = 1.0
    if smin and min(smin) > 0:
        amp = max(1.0, min(1e4, 1.0 / math.sqrt(min(smin))))
    return Fraction(big) * Fraction(amp)


# ---------------------------------------------------------------------------------------------------
# Gallina printer
# ---------------------------------------------------------------------------------------------------
def _coq_ens(case, obs):
    R, P, no, nc, V = case["R"], case["P"], case["no"], case["nc"], case["V"]
    nf = no + nc
    outcome = {"grad": "OGrad", "none": "ONone", "abort": "OAbort", "error": "OError", "config": "OConfig"}[obs["outcome"]]
    have_grad = obs["outcome"] == "grad"
    funcs = []
    for j in range(nf):
        est = "EStd" if case["stds"][j] else "EMean"
        w = _weights_in_force(case, obs, j)
        f0 = [obs["f0"][r][j] for r in range(R)]
        fp = [[obs["fp"][r][p][j] for p in range(P)] for r in range(R)]
        grad = obs["grad"][j] if have_grad else [0.0] * V
        gnan = any(math.isnan(v) for v in grad)
        grad = [0.0 if math.isnan(v) else v for v in grad]
        sigma = _sigma(case, obs, j) if (have_grad and case["stds"][j]) else 0.0
        if math.isnan(sigma):
            sigma = 0.0
        if case["quad"] is None:
            sl = "(Some " + cq.lst(cq.qs(case["slopes"][r][j]) for r in range(R)) + ")"        # user coordinates
        else:
            sl = "None"
        s2m = obs["s2m"][j] if have_grad and obs.get("s2m") else []
        funcs.append(f"(Build_fcase {est} {cq.qs(w)} {cq.oqs(f0)} {cq.oqmat(fp)} {cq.qs(grad)} {cq.b(gnan)} {cq.q(sigma)} "
                     f"{cq.qs(s2m)} {sl})")
    X = cq.lst(cq.qmat(obs["X"][r]) for r in range(R))
    s2 = cq.lst(cq.qs(s) for s in obs.get("s2", [[] for _ in range(R)]))
    failed_fn = obs.get("failed_fn", [False] * R)
    failed = obs.get("failed", [False] * R)
    wgrad = obs["wgrad"] if have_grad else [0.0] * V
    wnan = any(math.isnan(v) for v in wgrad)
    wgrad = [0.0 if math.isnan(v) else v for v in wgrad]
    sc = case["scaler"]
    scales = [1.0] * V if sc is None else sc["scales"]
    offsets = [0.0] * V if sc is None or sc["offsets"] is None else sc["offsets"]
    evx = obs.get("evx") if have_grad else None
    evx_t = "None" if evx is None else "(Some " + cq.lst(cq.qmat(evx[r]) for r in range(R)) + ")"
    cb = obs.get("cb") if have_grad else None
    if cb is not None and any(math.isnan(v) for row in cb for v in row):
        cb = None
    cb_t = "None" if cb is None else f"(Some {cq.qmat(cb)})"
    return ("(Ens (Build_ens_case " + " ".join([
        cq.q(_scale(case, obs)), cq.bs(_free(case)), cq.qs(obs["x"]), X, cq.nat(_pmin(case, obs)), cq.nat(_rmin(case, obs)),
        cq.bs(failed_fn), cq.bs(failed), cq.b(case["merge"]), s2, cq.lst(funcs),
        cq.nat(no), cq.qs(obs.get("cfg_ow", case["ow"])), cq.qs(wgrad), cq.b(wnan), outcome, cq.b(case["filter"] is None),
        cq.qs(scales), cq.qs(offsets), evx_t, cb_t]) + "))")


def _coq_ls(case, obs):
    a = "None" if case["a"] is None else f"(Some {cq.qs(case['a'])})"
    big = max([1.0] + [abs(v) for v in case["b"]] + [abs(v) for v in (case["a"] or [])])
    smin = obs["s2"][-1] if obs["s2"] and obs["s2"][-1] > 0 else 1.0
    S = Fraction(big) * Fraction(max(1.0, min(1e4, 1.0 / math.sqrt(smin))))
    return f"(Ls {cq.nat(case['n'])} {cq.qmat(case['A'])} {cq.qs(case['b'])} {cq.qs(obs['g'])} {cq.qs(obs['s2'])} {a} {cq.q(S)})"


def coq_case(case, obs):
    return _coq_ls(case, obs) if case["kind"] == "ls" else _coq_ens(case, obs)


# ---------------------------------------------------------------------------------------------------
# oracle: the property's predicate on the implementation's output (NumPy, no model)
# ---------------------------------------------------------------------------------------------------
def _exact_rows(case, obs, ignore_bound=False):
    """For an affine case with reported gradients: list of (j, kind, exact gradient over all variables or None
    when the property does not speak about row j, number of contributing realizations, one-sided-weight stacked solve
    (merged rows only: what the known finding C02:merged-gradient-scaled yields))."""
    import numpy as np
    R, P, no, nc, V = case["R"], case["P"], case["no"], case["nc"], case["V"]
    free = np.array(_free(case), dtype=bool)
    nfree = int(free.sum())
    x = np.array(obs["x"], dtype=np.float64)
    X = np.array(obs["X"], dtype=np.float64)
    f0 = np.array(obs["f0"], dtype=np.float64)
    fp = np.array(obs["fp"], dtype=np.float64)
    succ = ~np.isnan(fp[:, :, 0]) & ~np.isnan(f0[:, :1])
    failed = np.isnan(f0[:, 0]) | (np.count_nonzero(~np.isnan(fp[:, :, 0]), axis=1) < _pmin(case, obs))
    rows = []
    for j in range(no + nc):
        w = np.where(failed, 0.0, np.array(_weights_in_force(case, obs, j), dtype=np.float64))
        if not w.sum() > 0 or np.any(w < 0):
            rows.append((j, "skip", None, 0, None))
            continue
        w = w / w.sum()
        contrib = [r for r in range(R) if w[r] > 0]
        Ds = {r: (X[r] - x)[succ[r]][:, free] for r in contrib}
        ok = True
        if case["merge"] and ignore_bound:
            # the merged solve is ONE solve of the stacked system: only its rank matters for what the code computes
            stack = np.vstack([Ds[r] for r in contrib])
            s2 = np.linalg.svd(stack, compute_uv=False) ** 2 if stack.shape[0] else np.array([])
            ok = len(s2) == nfree and nfree > 0 and s2[-1] > 1e-6 * s2.sum()
        else:
            for r in contrib:
                D = Ds[r]
                s2 = np.linalg.svd(D, compute_uv=False) ** 2 if D.shape[0] else np.array([])
                if ignore_bound:
                    ok &= len(s2) == nfree and nfree > 0 and s2[-1] > 1e-6 * s2.sum()
                else:
                    ok &= _bound_ok(list(s2), nfree)
        if not ok:
            rows.append((j, "trivial", None, len(contrib), None))
            continue
        Aopt = np.array([[float(v) for v in _slopes_opt(case, r, j)] for r in range(R)])
        onesided = None
        if case["merge"]:
            shared = all(Ds[r].shape == Ds[contrib[0]].shape and np.array_equal(Ds[r], Ds[contrib[0]]) for r in contrib)
            identical = all(np.array_equal(Aopt[r][free], Aopt[contrib[0]][free]) for r in contrib)
            if not (shared or identical):
                rows.append((j, "trivial", None, len(contrib), None))
                continue
            stack = np.vstack([Ds[r] for r in contrib])
            rhs = np.concatenate([w[r] * (fp[r][succ[r], j] - f0[r, j]) for r in contrib])
            onesided = np.zeros(V)
            onesided[free] = np.linalg.lstsq(stack, rhs, rcond=None)[0]
        exact = np.zeros(V)
        if not case["stds"][j]:
            exact[free] = (w[:, None] * Aopt)[:, free].sum(axis=0)
            rows.append((j, "merged" if case["merge"] else "mean", exact, len(contrib), onesided))
        else:
            N = len(contrib)
            if N < 2:
                rows.append((j, "skip", None, N, None))
                continue
            fj = np.nan_to_num(f0[:, j])
            m = fj @ w
            var = N / (N - 1) * (((fj - m) ** 2) @ w)
            sd = math.sqrt(max(var, 0.0))
            if sd > 1e-7:
                exact[free] = (N / (N - 1) / sd * ((w * fj) @ Aopt - m * (w @ Aopt)))[free]
                rows.append((j, "std", exact, N, sd))         # fifth entry of a stddev row: sigma
            elif sd < 1e-12:
                rows.append((j, "std", exact, N, 0.0))        # sigma == 0: the code returns zeros
            else:
                rows.append((j, "skip", None, N, None))
    return rows, failed


def _tol_scale(case, obs):
    """atol = 1e-7 * this: the largest slope in optimizer coordinates (no floor of 1: tiny ensembles are judged relative to
    their own size) plus a rounding allowance 1e-6 * (largest value) / (smallest singular value) -- the cancellation in
    perturbed - unperturbed values costs about 2e-16 * (largest value) / (perturbation size)"""
    import numpy as np
    slope = float(np.abs(np.array(case["slopes"])).max()) * (max(case["scaler"]["scales"]) if case["scaler"] else 1.0)
    return slope + 1e-6 * float(_scale(case, obs))


def _same(a, b):
    import numpy as np
    return a.shape == b.shape and bool(np.all((a == b) | (np.isnan(a) & np.isnan(b))))


def oracle(case, obs):
    import numpy as np
    if case["kind"] == "ls":
        A = np.array(case["A"]); n = case["n"]
        if not _bound_ok(obs["s2"], n):
            return None
        g = np.array(obs["g"])
        if case["a"] is not None and not np.allclose(g, case["a"], rtol=1e-7, atol=1e-9):
            return {"clause": "invert_linear_equations_exact_on_consistent_data", "detail": {"got": obs["g"], "want": case["a"]}}
        res = A.T @ (A @ g - np.array(case["b"]))
        if not np.allclose(res, 0.0, atol=1e-9 * max(1.0, float(np.abs(A).max()) ** 2 * float(np.abs(g).max() + 1))):
            return {"clause": "invert_linear_equations_normal_equations", "detail": res.tolist()}
        return None
    if obs.get("stale_cache"):
        return {"clause": "gradient_from_function_values_of_another_point",
                "detail": "a gradient-only request was answered from cached function results although no function request "
                          "was ever made at this point"}
    must_reject = bool(case["merge"]) and any(case["stds"])
    if (obs.get("outcome") == "config") != must_reject:
        return {"clause": "stddev_with_merged_realizations_is_rejected_and_nothing_else",
                "detail": {"outcome": obs.get("outcome"), "merge": case["merge"], "stddev": case["stds"]}}
    if must_reject:
        return None
    if obs.get("outcome") == "abort":
        if obs.get("exit_code") != 1:
            return {"clause": "unexpected_abort_code", "detail": obs.get("exit_code")}
        return None
    if obs.get("outcome") == "error":
        f0 = np.array(obs["f0"], dtype=np.float64)
        fp = np.array(obs["fp"], dtype=np.float64)
        failed = np.isnan(f0[:, 0]) | (np.count_nonzero(~np.isnan(fp[:, :, 0]), axis=1) < _pmin(case, obs))
        if case["filter"] is None and np.where(failed, 0.0, np.array(obs["cfg_weights"])).sum() > 0:
            return {"clause": "exception_with_surviving_weight", "detail": obs.get("exception")}
        return None
    if obs.get("outcome") not in ("grad", "none"):
        return None
    # ---- which inputs the gradient was computed from (both outcomes) -------------------------------------------
    if "gx" in obs and obs["gx"] != obs["x"]:
        return {"clause": "gradient_results_report_other_variables", "detail": {"got": obs["gx"], "want": obs["x"]}}
    sc = case["scaler"]
    s = np.ones(case["V"]) if sc is None else np.array(sc["scales"], dtype=np.float64)
    o = np.zeros(case["V"]) if sc is None or sc["offsets"] is None else np.array(sc["offsets"], dtype=np.float64)
    if obs.get("evx") is not None:
        want = np.array(obs["X"], dtype=np.float64) * s + o
        got = np.array(obs["evx"], dtype=np.float64)
        if got.shape != want.shape or not np.allclose(got, want, rtol=1e-12, atol=1e-12):
            return {"clause": "evaluated_rows_are_not_the_reported_perturbed_variables", "detail": {"evaluated": obs["evx"], "reported_user": want.tolist()}}
    if obs.get("evx0") is not None:
        want = np.array(obs["x"], dtype=np.float64) * s + o
        got = np.array(obs["evx0"], dtype=np.float64)
        if not np.allclose(got, want[None, :], rtol=1e-12, atol=1e-12):
            return {"clause": "function_values_of_another_point", "detail": {"evaluated": obs["evx0"], "want": want.tolist()}}
    for kraw, krep in (("raw0", "f0"), ("rawp", "fp")):
        if obs.get(kraw) is not None and not _same(_propagate(obs[kraw]), np.array(obs[krep], dtype=np.float64)):
            return {"clause": "reported_values_are_not_the_evaluator_values", "detail": {"which": krep, "evaluator": obs[kraw], "reported": obs[krep]}}
    if obs.get("outcome") != "grad":
        return None
    for kf, kg in (("ow_rows", "g_ow_rows"), ("cw_rows", "g_cw_rows")):
        if kg in obs and not ((obs[kf] is None and obs[kg] is None) or
                              (obs[kf] is not None and obs[kg] is not None and
                               np.array_equal(np.array(obs[kf], dtype=np.float64), np.array(obs[kg], dtype=np.float64)))):
            return {"clause": "gradient_results_report_other_weights_than_function_results",
                    "detail": {"function_results": obs[kf], "gradient_results": obs[kg], "which": kf}}
    free = np.array(_free(case), dtype=bool)
    G = np.array(obs["grad"], dtype=np.float64)
    wg = np.array(obs["wgrad"], dtype=np.float64)
    if G.shape != (case["no"] + case["nc"], case["V"]) or wg.shape != (case["V"],):
        return {"clause": "gradient_shape", "detail": [list(G.shape), list(wg.shape)]}
    if np.any(G[:, ~free] != 0.0) or np.any(wg[~free] != 0.0):
        return {"clause": "fixed_entries_exactly_zero", "detail": {"gradients": G.tolist(), "weighted": wg.tolist(), "mask": _free(case)}}
    scale = _tol_scale(case, obs)
    want = np.array(obs["cfg_ow"], dtype=np.float64) @ G[:case["no"]]
    if not np.allclose(wg, want, rtol=1e-7, atol=1e-9 * scale, equal_nan=True):
        return {"clause": "weighted_objective_gradient", "detail": {"got": wg.tolist(), "want": want.tolist()}}
    if obs.get("cb") is not None:
        want = np.vstack([wg[free][None, :], G[case["no"]:][:, free]])
        got = np.array(obs["cb"], dtype=np.float64)
        if not _same(got, want):
            return {"clause": "matrix_handed_to_the_optimizer", "detail": {"got": obs["cb"], "want": want.tolist()}}
    if case["quad"] is not None:
        return None
    rows, failed = _exact_rows(case, obs)
    if [bool(v) for v in failed] != obs["failed"]:
        return {"clause": "failed_realization_flags", "detail": {"got": obs["failed"], "want": [bool(v) for v in failed]}}
    slope = float(np.abs(np.array(case["slopes"])).max()) * (max(case["scaler"]["scales"]) if case["scaler"] else 1.0)
    for j, kind, exact, count, extra in rows:
        if exact is None:
            continue
        if kind == "std" and extra > 0:
            # like the Coq checker: sigma * grad sigma is what is computed without division; its rounding error grows with
            # the largest value, not with 1 / sigma
            ok = np.allclose(extra * G[j], extra * exact, rtol=1e-6, atol=1e-7 * slope * extra + 1e-13 * float(_scale(case, obs)))
        else:
            ok = np.allclose(G[j], exact, rtol=1e-6, atol=1e-7 * scale)
        if not ok:
            clause = {"mean": "mean_affine_exact", "std": "sd_chain_rule_exact", "merged": "merged_affine_exact"}[kind]
            return {"clause": clause, "detail": {"function": j, "got": G[j].tolist(), "want": exact.tolist(),
                                                 "contributing_realizations": count}}
    return None


def known_signature(case, obs, violation):
    """C02:merged-gradient-scaled -- merge_realizations=True AND every reported gradient row equals the one-sided-weight
    stacked solve (weights applied to the function differences only) AND some row therefore differs from the exact one.
    Only the clause merged_affine_exact (or a model disagreement the oracle does not see) can be attributed to it."""
    import numpy as np
    if case["kind"] != "ens" or not case["merge"] or obs.get("outcome") != "grad" or case["quad"] is not None:
        return None
    if violation is not None and violation.get("clause") != "merged_affine_exact":
        return None
    G = np.array(obs["grad"], dtype=np.float64)
    rows, _ = _exact_rows(case, obs, ignore_bound=True)
    scale = _tol_scale(case, obs)
    seen = False
    for j, kind, exact, count, onesided in rows:
        if kind == "skip":
            continue
        if kind != "merged" or exact is None or onesided is None or count < 1:
            return None
        if not np.allclose(G[j], onesided, rtol=1e-6, atol=1e-7 * scale):
            return None
        if count > 1 and not np.allclose(G[j], exact, rtol=1e-6, atol=1e-7 * scale):
            seen = True
    return KNOWN_ID if seen else None


def _cond_ok(case, obs):
    rows, _ = _exact_rows(case, obs)
    return any(r[2] is not None for r in rows) and all(r[1] != "trivial" for r in rows)


def nontrivial(case, obs):
    if case["kind"] == "ls":
        return _bound_ok(obs["s2"], case["n"])
    if obs.get("outcome") != "grad" or case["quad"] is not None or case["merge"]:
        return False
    return _cond_ok(case, obs)


def _bounds_kind(case):
    if case["bounds"] is None:
        return "none"
    if any(math.isinf(v) for v in case["bounds"][0] + case["bounds"][1]):
        return "partly-infinite"
    return "finite"


def features(case, obs):
    if case["kind"] == "ls":
        return {"kind": "ls", "ls_n": case["n"], "ls_bound": _bound_ok(obs["s2"], case["n"]), "ls_consistent": case["a"] is not None}
    s = case["sampler"]
    ops, final, via, reuse = _request(case)
    f = _filters(case)
    est = case.get("estimators")
    out = {"kind": "ens", "outcome": obs.get("outcome"), "V": case["V"], "R": case["R"], "P": case["P"],
           "nfree": sum(_free(case)), "functions": case["no"] + case["nc"],
           "sampler": {"inject": "inject", "multi": "several-assigned-per-variable"}.get(s["kind"], s.get("method")),
           "shared": s["shared"],
           "merge": case["merge_mode"] or "no", "affine": case["quad"] is None, "stddev": any(case["stds"]),
           "perturbation_failures": any(any(r) for r in case["pfail"]), "realization_failures": any(case["rfail"]),
           "filter": "none" if f is None else "+".join(sorted(e["method"] for e in f["filters"])),
           "scaler": case["scaler"] is not None,
           "bounds": _bounds_kind(case), "relative_magnitudes": case.get("ptypes") is not None,
           "zero_weight": any(w == 0 for w in case["weights"]), "values": case.get("values", "O(1)"),
           "estimator_list": "legacy" if est is None else ("default" if est["layout"] is None else ",".join(est["layout"])),
           "request": case.get("request", "functions-then-gradient" if case.get("split") else "combined"),
           "issued_through": via, "caller_buffer_reused": reuse, "answered": obs.get("path", "-"),
           "second_evaluator_object_in_between": bool(case.get("decoy")),
           "evaluator_skips_inactive_entries": bool(case.get("lazy")),
           "filters_on": "-" if f is None else ("constraints-only" if f["ofilt"] is None else
                                                 "objectives-only" if f["cfilt"] is None else "both")}
    if obs.get("outcome") == "grad" and case["quad"] is None:
        out["inside_1pct_bound"] = _cond_ok(case, obs)
    return out


# ---------------------------------------------------------------------------------------------------
# shrinking and violation search
# ---------------------------------------------------------------------------------------------------
def _drop_realization(case, r):
    c = dict(case)
    for key in ("weights", "slopes", "offsets", "pfail", "rfail", "failcol"):
        c[key] = case[key][:r] + case[key][r + 1:]
    if case.get("rfail_alt"):
        c["rfail_alt"] = [row[:r] + row[r + 1:] for row in case["rfail_alt"]]
    if case["quad"] is not None:
        c["quad"] = case["quad"][:r] + case["quad"][r + 1:]

    def drop(s):
        s = dict(s)
        if s["kind"] == "inject" and not s["shared"]:
            s["design"] = s["design"][:r] + s["design"][r + 1:]
        return s
    s = drop(case["sampler"])
    if s["kind"] == "multi":
        s["list"] = [drop(e) for e in s["list"]]
    c["sampler"] = s
    c["R"] = case["R"] - 1
    if case["rmin"] is not None:
        c["rmin"] = min(case["rmin"], c["R"])
    if not any(c["weights"]):
        return None
    return c


def _drop_function(case, j):
    no, nc = case["no"], case["nc"]
    if j < no and no == 1:
        return None
    c = dict(case)
    c["stds"] = case["stds"][:j] + case["stds"][j + 1:]
    c["slopes"] = [row[:j] + row[j + 1:] for row in case["slopes"]]
    c["offsets"] = [row[:j] + row[j + 1:] for row in case["offsets"]]
    if case["quad"] is not None:
        c["quad"] = [row[:j] + row[j + 1:] for row in case["quad"]]
    if j < no:
        c["no"] = no - 1
        c["ow"] = case["ow"][:j] + case["ow"][j + 1:]
        if not any(c["ow"]):
            return None
    else:
        c["nc"] = nc - 1
    c["failcol"] = [[min(v, no + nc - 2) for v in row] for row in case["failcol"]]
    c["filter"] = None
    if "estimators" in case:     # back to the plain two-entry list with explicit indices
        c["estimators"] = {"layout": ["mean"] if case["merge"] else ["mean", "stddev"], "obj": [1 if s else 0 for s in c["stds"][:c["no"]]],
                           "con": [1 if s else 0 for s in c["stds"][c["no"]:]] or None}
    return c


def shrink(case):
    if case["kind"] != "ens":
        return
    ops, final, via, reuse = _request(case)
    if via == "optimizer":
        yield {**case, "via": "evaluator"}
    if reuse:
        yield {**case, "reuse_buffer": False}
    if case.get("decoy"):
        yield {**case, "decoy": False}
    if case.get("lazy"):
        yield {**case, "lazy": False}
    if len(ops) > 1:
        for k in range(len(ops)):
            yield {**case, "ops": ops[:k] + ops[k + 1:], "request": "shrunk"}
    if "ops" in case and ops and final == "fg":
        yield {**case, "ops": [], "request": "combined"}
    if case["filter"] is not None:
        yield {**case, "filter": None}
    if case["scaler"] is not None:
        yield {**case, "scaler": None}
    if case["bounds"] is not None:
        yield {**case, "bounds": None, "boundary": None, "ptypes": None}
    if case["sampler"]["kind"] == "multi":
        first = next((e for e in case["sampler"]["list"] if e["kind"] == "inject"), None)
        if first is not None:
            yield {**case, "sampler": {**first, "seed": 0}}
    if any(any(r) for r in case["pfail"]) or any(case["rfail"]):
        yield {**case, "pfail": [[False] * case["P"] for _ in range(case["R"])], "rfail": [False] * case["R"],
               "rfail_alt": [[False] * case["R"]] * 2}
    for r in range(case["R"] - 1, -1, -1):
        if case["R"] > 1:
            c = _drop_realization(case, r)
            if c is not None:
                yield c
    for j in range(case["no"] + case["nc"] - 1, -1, -1):
        c = _drop_function(case, j)
        if c is not None:
            yield c
    if case["mask"] is not None and all(case["mask"]):
        yield {**case, "mask": None}
    if isinstance(case["magnitudes"], list):
        yield {**case, "magnitudes": 0.25}


def search(rng, case):
    """extra cases near a disagreeing one, judged by the oracle only: affine, injected designs, same switches, and the
    same request sequence."""
    merge = bool(case and case.get("kind") == "ens" and case.get("merge"))
    request = case.get("request") if case and case.get("kind") == "ens" and case.get("request") in [r[0] for r in REQUESTS] else None
    for k in range(600):
        if case is not None and case.get("kind") == "ls":
            yield gen_ls(rng, between=(k % 3 == 0))
            continue
        req = request if k % 2 == 0 else None
        if k % 4 == 3:
            yield gen_ens(rng, sampler=METHODS[k % len(METHODS)], small=True, merge=merge, request=req)
        elif k % 4 == 2:
            yield gen_ens(rng, merge=merge, simple=True, request=req)
        else:
            yield gen_ens(rng, merge=merge, request=req)
    if case is None or case.get("kind") == "ls":
        for k in range(300):
            yield gen_ls(rng, between=(k % 2 == 0))


MANIFEST = {
    "level_text": (
        "Machine-checked Coq proofs about the executable model of ropt's gradient estimation (Model/Gradient.v: difference "
        "systems, dropping of failed rows, certified exact least squares, merged weighted least squares, weight zeroing and "
        "renormalisation, mean and stddev estimators, restriction to free variables and re-expansion with zeros, the variable "
        "scaler's map and the matrix handed to the optimizer), for all sizes, masks, weights and failure patterns: any vector "
        "passing the normal-equation test equals the generating slope under full column rank, minimises the residual sum of "
        "squares for arbitrary data and is the unique minimiser under full rank, and the solver returns a vector exactly for "
        "well-shaped data of full (joint) column rank; on affine ensembles the per-realization "
        "estimate of every function equals the normalised-weight combination of the slopes, the merged estimate does so for "
        "shared perturbations or identical realizations (for identical realizations already when only the stacked system has "
        "full rank), the stddev gradient equals the chain-rule expression, which is proved to be the derivative of the variance "
        "polynomial and to vanish when the variance does; an ensemble that is affine in user coordinates is affine in optimizer "
        "coordinates with the slopes multiplied by the scales; entries of fixed variables are the literal 0, the matrix handed "
        "to the optimizer consists of exactly the free columns; the weighted-objective gradient is the weighted sum; and under "
        "the property's 1 % conditioning bound the code's 99.9 % energy rule (with the SVD_TOLERANCE constant re-extracted from "
        "the source on every run) truncates nothing.  The model is tied to the code on every run by an in-Coq correspondence: "
        "request sequences are issued to the real EnsembleEvaluator (directly and through EnsembleOptimizer's optimizer "
        "callback) and to _invert_linear_equations, and Coq recomputes the exact gradients from the reported perturbed "
        "variables and values and compares them, the rows the evaluator received and the matrix the callback returned."),
    "level_note": (
        "Trusted / modelled, not verified: LAPACK's SVD (the code's truncated pseudo-inverse is modelled as an exact "
        "least-squares solve; that the two agree is established only by the per-run numerical correspondence and, for the "
        "truncation decision, by the no-truncation theorem); NumPy singular values decide whether a case's values are "
        "compared (through the model's own truncation rule) and whether it counts as non-trivial; float rounding (exact "
        "rationals + tolerance); the Python driver, the injected sampler and scripted optimizer plug-ins and the table-driven "
        "evaluator; the Coq kernel/VM and the translator.  The model's solver is a Cramer proposer whose result is accepted "
        "only if it satisfies the normal equations exactly; it is proved complete (Proofs/LstsqComplete.v: it returns a "
        "vector exactly when the data is well shaped and the (stacked, positively weighted) system has full column rank, for "
        "every n), so the exactness theorems also hold in their total form (C02_mean_affine_total, C02_merged_total, "
        "C02_never_singular_on_full_rank_ensembles); a compared case on which the model answers 'singular' still fails the "
        "check as a redundant safeguard.  Rank and singular values: the 1 % clause is proved to imply full column rank and an "
        "untruncated, unique least-squares answer GIVEN the Rayleigh characterisation of the smallest squared singular value "
        "(s_min |x|^2 <= |A x|^2 for all x); that the number NumPy reports has this property remains an oracle assumption "
        "tested by the per-run correspondence.  Realization filters, samplers, bounds and magnitudes are not modelled here: the reported weight rows "
        "and reported perturbed variables are inputs (the latter are checked against the rows the evaluator received).  The "
        "request sequence itself (cache hits and misses) is not modelled: the judged request must be exact whatever was asked "
        "before.  Merged estimation is modelled as the property states it (weighted least squares); the current code applies "
        "the weights to the function differences only: known finding C02:merged-gradient-scaled, reported as KNOWN-FINDING on "
        "every run, recognised only when every reported row equals that one-sided-weight stacked solve.  All theorems print "
        "'Closed under the global context'."),
    "technique": "Coq proofs (list induction over Q, translation-validated least squares) + in-Coq differential correspondence with the real evaluator and optimizer callback over request sequences",
    "design_ref": "DESIGN.md section 4, C02",
}
