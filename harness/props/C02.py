"""C02 -- stochastic gradient is exact on affine ensembles and zero on fixed variables.

Correspondence: the real EnsembleEvaluator.calculate(compute_functions=True, compute_gradients=True) is
run on generated ensembles (affine, plus some quadratic ones to exercise the solver) with perturbations
from an injected deterministic sampler plug-in (registered through PluginManager.add_plugin) and from
every built-in sampler.  The reported perturbed variables, per-realization values (after NaN
propagation), weights in force, failure flags and gradients go to Coq, where Check/Chk_C02.v re-runs
Model/Gradient.v (certified exact least squares over Q) on them and compares.  A second case kind calls
the real _invert_linear_equations directly.
"""
from __future__ import annotations

import math
from fractions import Fraction

import coqio as cq

ID = "C02"
THEOREM_FILE = "Props/C02.v"
CHK_MODULE = "Check.Chk_C02"
CASE_TYPE = "Chk_C02.case"
CHECK_FN = "Chk_C02.check_case"
HEADER = "From Ropt Require Import Model.Gradient Gen.Generated."
SHARD_SIZE = 40
PARALLEL = True
KNOWN_ID = "C02:merged-gradient-scaled"

RULE = ("seeded random ensembles: 1..5 realizations, 1..4 variables with random masks (incl. a single free variable), "
        "1..6 perturbations, 1..3 objectives and 0..2 constraints, mean/stddev estimators, dyadic slopes/offsets/weights "
        "(weights with zeros), NaN in unperturbed and perturbed slots (any column), perturbation_min_success / "
        "realization_min_success thresholds, magnitudes (scalar and per variable), bounds with every boundary type that keep or "
        "clip the design, optional VariableScaler, optional realization filters (sort/cvar on objectives or constraints), merged "
        "and per-realization estimation.  Perturbations: injected deterministic designs (signed permutations of the unit "
        "vectors plus dyadic rows, shared or per realization) and every built-in sampler (norm, uniform, truncnorm, sobol, "
        "halton, lhs) with several seeds (full-precision floats).  Plus quadratic (non-affine) ensembles compared with the "
        "exact least-squares answer, a stream of rank-deficient / ill-conditioned designs (counted as trivial) and direct calls "
        "of _invert_linear_equations.  Non-trivial = gradients were reported, the ensemble is affine, every contributing "
        "realization's reported difference matrix (free columns, successful rows) has full column rank with smallest squared "
        "singular value >= 1 % of the total (NumPy), and the case is outside the merged-estimation known finding; for "
        "_invert_linear_equations cases: the same bound on the matrix.  distinct = distinct case dictionaries.")
ASSUMPTIONS = [
    "the evaluator is a table-driven affine (or quadratic) function of (variables, realization) that returns NaN in the generated failure slots",
    "NumPy/LAPACK singular values of the reported difference matrices are used to decide (through the model's own 99.9 % rule with the generated SVD_TOLERANCE) whether a value comparison is made, and to classify cases as non-trivial (1 % bound)",
    "merged estimation is only generated where the property speaks about it: shared perturbations with a common set of successful rows, or identical realizations with equal non-zero weights (for identical realizations with unequal weights and non-shared perturbations the known finding yields a gradient that is not a multiple of the exact one)",
]
TRUSTED = [
    "LAPACK SVD inside _invert_linear_equations is an oracle: the model solves the same least-squares problem exactly (certified normal equations) and the two are compared numerically on every case",
    "float rounding: exact-rational model + tolerance |x-m| <= 1e-12*S + 1e-9*|m| with S = largest input magnitude / smallest singular value",
]

METHODS = ["norm", "uniform", "truncnorm", "sobol", "halton", "lhs"]
FILTERS = ["sort-objective", "cvar-objective", "sort-constraint", "cvar-constraint"]


# ---------------------------------------------------------------------------------------------------
# generators
# ---------------------------------------------------------------------------------------------------
def _dy(rng, lo, hi, den):
    return rng.randint(int(lo * den), int(hi * den)) / den


def _weights(rng, n, equal=False):
    if equal:
        c = rng.choice([0.25, 0.5, 1.0, 2.0])
        w = [c if rng.random() < 0.8 else 0.0 for _ in range(n)]
        if not any(w):
            w[rng.randrange(n)] = c
        return w
    mode = rng.random()
    if mode < 0.3:
        return [1.0] * n
    w = [rng.choice([0.0, 0.25, 0.5, 0.75, 1.0, 1.5, 2.0]) for _ in range(n)]
    if not any(w):
        w[rng.randrange(n)] = 1.0
    return w


def _design(rng, P, V, free_idx):
    """P x V sample matrix: signed permutation of the free unit vectors first, then dyadic rows."""
    rows = []
    order = list(free_idx)
    rng.shuffle(order)
    for k in range(P):
        row = [0.0] * V
        if k < len(order) and rng.random() < 0.85:
            row[order[k]] = rng.choice([1.0, -1.0, 0.5, -0.5, 1.0, -1.0])
            if rng.random() < 0.3:
                for j in range(V):
                    if j != order[k] and rng.random() < 0.4:
                        row[j] = rng.choice([0.25, -0.25, 0.5, -0.5])
        else:
            row = [rng.choice([-1.0, -0.75, -0.5, -0.25, 0.25, 0.5, 0.75, 1.0]) for _ in range(V)]
        rows.append(row)
    rng.shuffle(rows)
    return rows


def gen_ens(rng, *, sampler="inject", merge=None, affine=True, edge=False, small=False, simple=False):
    V = rng.choice([1, 2, 2, 3] if small else [1, 2, 2, 3, 3, 4])
    R = rng.choice([1, 2, 2, 3] if small else [1, 2, 3, 3, 4, 5])
    mask = None
    if rng.random() < 0.6:
        mask = [rng.random() < 0.65 for _ in range(V)]
        if not any(mask):
            mask[rng.randrange(V)] = True
    free_idx = [i for i in range(V) if mask is None or mask[i]]
    nfree = len(free_idx)
    if edge:
        P = max(1, nfree - rng.choice([0, 1, 1]))
    elif sampler == "inject":
        P = min(6, nfree + rng.choice([0, 0, 1, 1, 2, 3]))
    else:
        P = min(6, nfree + rng.choice([1, 2, 2, 3]))
    no = rng.choice([1, 1, 2] if small else [1, 1, 2, 3])
    nc = rng.choice([0, 0, 1] if small else [0, 0, 1, 2])
    nf = no + nc
    if merge is None:
        merge = False
    stds = [False] * nf
    if not merge and not simple and R >= 2:
        stds = [rng.random() < 0.3 for _ in range(nf)]
    merge_mode = None
    if merge:
        merge_mode = rng.choice(["shared", "shared", "identical"])
    weights = _weights(rng, R, equal=(merge_mode == "identical"))
    ow = [rng.choice([0.0, 0.25, 0.5, 1.0, 1.0, 2.0]) for _ in range(no)]
    if not any(ow):
        ow[0] = 1.0
    den = 16
    slopes = [[[_dy(rng, -3, 3, den) for _ in range(V)] for _ in range(nf)] for _ in range(R)]
    if merge_mode == "identical" or (not merge and rng.random() < 0.05):
        slopes = [slopes[0] for _ in range(R)]
    offsets = [[_dy(rng, -3, 3, den) for _ in range(nf)] for _ in range(R)]
    quad = None
    if not affine:
        quad = [[rng.choice([-1.0, -0.5, 0.25, 0.5, 1.0]) for _ in range(nf)] for _ in range(R)]
    x0 = [_dy(rng, -1, 1, 16) for _ in range(V)]
    # failures
    pf = 0.0 if simple else rng.choice([0.0, 0.0, 0.15, 0.3])
    rf = 0.0 if simple else rng.choice([0.0, 0.0, 0.2])
    pfail = [[rng.random() < pf for _ in range(P)] for _ in range(R)]
    rfail = [rng.random() < rf for _ in range(R)]
    if merge_mode == "shared":
        col = [rng.random() < pf for _ in range(P)]          # a failure hits the same perturbation everywhere
        pfail = [list(col) for _ in range(R)]
    failcol = [[rng.randrange(nf) for _ in range(P + 1)] for _ in range(R)]
    pmin = rng.randint(1, P)
    if merge_mode == "shared":
        pmin = 1
    rmin = rng.choice([0, 1, 1, rng.randint(0, R)])
    # sampler
    if sampler == "inject":
        shared = (merge_mode == "shared") or (merge_mode is None and rng.random() < 0.25)
        design = [_design(rng, P, V, free_idx) for _ in range(1 if shared else R)]
        samp = {"kind": "inject", "shared": shared, "design": design}
    else:
        shared = (merge_mode == "shared") or (merge_mode is None and rng.random() < 0.3)
        samp = {"kind": "builtin", "method": sampler, "shared": shared, "seed": rng.randint(0, 10 ** 6)}
    if rng.random() < 0.5:
        magnitudes = rng.choice([0.125, 0.25, 0.5])
    else:
        magnitudes = [rng.choice([0.125, 0.25, 0.5]) for _ in range(V)]
    bounds = None
    boundary = None
    r = rng.random()
    if r < 0.2:      # wide bounds: the design is kept
        bounds = [[v - rng.choice([2.0, 4.0]) for v in x0], [v + rng.choice([2.0, 4.0]) for v in x0]]
        boundary = rng.choice([1, 2, 3])
    elif r < 0.4:    # tight bounds: the design is clipped / mirrored (NONE keeps it)
        bounds = [[v - rng.choice([0.0625, 0.125, 0.25, 1.0]) for v in x0], [v + rng.choice([0.0625, 0.125, 0.25, 1.0]) for v in x0]]
        boundary = rng.choice([1, 2, 3]) if rng.random() < 0.5 else [rng.choice([1, 2, 3]) for _ in range(V)]
    scaler = None
    if rng.random() < 0.3:
        scaler = {"scales": [rng.choice([0.5, 2.0, 4.0, 1.0]) for _ in range(V)],
                  "offsets": [_dy(rng, -1, 1, 4) for _ in range(V)] if rng.random() < 0.6 else None}
    filt = None
    if not merge and not simple and R >= 2 and rng.random() < 0.25:
        method = rng.choice(FILTERS if nc else FILTERS[:2])
        on_obj = method.endswith("objective")
        if method.startswith("sort"):
            first = rng.randint(0, R - 1)
            opts = {"sort": [rng.randrange(no)] if on_obj else rng.randrange(nc), "first": first, "last": rng.randint(first, R - 1)}
        else:
            opts = {"sort": [rng.randrange(no)] if on_obj else rng.randrange(nc), "percentile": rng.choice([0.25, 0.5, 0.75, 1.0])}
        ofilt = [0 if rng.random() < 0.6 else -1 for _ in range(no)]
        cfilt = [0 if rng.random() < 0.6 else -1 for _ in range(nc)]
        if all(v < 0 for v in ofilt + cfilt):
            ofilt[0] = 0
        filt = {"method": method, "options": opts, "ofilt": ofilt, "cfilt": cfilt}
    return {"kind": "ens", "V": V, "R": R, "P": P, "no": no, "nc": nc, "x0": x0, "mask": mask, "weights": weights,
            "ow": ow, "stds": stds, "slopes": slopes, "offsets": offsets, "quad": quad, "pmin": pmin, "rmin": rmin,
            "merge": bool(merge), "merge_mode": merge_mode, "sampler": samp, "magnitudes": magnitudes, "bounds": bounds,
            "boundary": boundary, "pfail": pfail, "rfail": rfail, "failcol": failcol, "scaler": scaler, "filter": filt,
            "split": rng.random() < (0.6 if filt is not None else 0.25)}


def gen_ls(rng, *, between=False, full=False):
    n = rng.choice([1, 2, 2, 3, 3, 4])
    m = n + rng.choice([0, 1, 1, 2, 3])
    if full:
        import random as _r
        A = [[rng.gauss(0, 1) * 0.25 for _ in range(n)] for _ in range(m)]
    else:
        A = [[_dy(rng, -1, 1, 8) * 0.25 for _ in range(n)] for _ in range(m)]
    if between and n >= 2:
        # shrink one column so that its energy share falls between the 0.1 % and the 1 % mark
        f = rng.choice([0.0625, 0.0625, 0.03125])
        for row in A:
            row[-1] *= f
    a = [_dy(rng, -3, 3, 16) for _ in range(n)]
    consistent = rng.random() < 0.6
    b = [sum(Fraction(x) * Fraction(y) for x, y in zip(row, a)) for row in A]
    b = [float(v) for v in b]
    if not consistent:
        b = [v + _dy(rng, -1, 1, 16) * 0.125 for v in b]
    return {"kind": "ls", "n": n, "A": A, "b": b, "a": a if consistent else None}


def gen_cases(tier, rng):
    quick = tier == "quick"
    n_inject = 900 if quick else 9000
    n_builtin = 144 if quick else 1800
    n_quad = 100 if quick else 1200
    n_merge = 100 if quick else 1200
    n_edge = 60 if quick else 800
    n_ls = 200 if quick else 2000
    plan = (["inject"] * n_inject + ["builtin"] * n_builtin + ["quad"] * n_quad + ["merge"] * n_merge
            + ["edge"] * n_edge + ["ls"] * n_ls)
    rng.shuffle(plan)          # spreads the expensive full-precision cases evenly over the shards
    k_builtin = 0
    for kind in plan:
        if kind == "inject":
            yield gen_ens(rng)
        elif kind == "builtin":
            k_builtin += 1
            yield gen_ens(rng, sampler=METHODS[k_builtin % len(METHODS)], small=True)
        elif kind == "quad":
            yield gen_ens(rng, affine=False)
        elif kind == "merge":
            if rng.random() < 0.2:
                yield gen_ens(rng, sampler=rng.choice(METHODS), merge=True, small=True)
            else:
                yield gen_ens(rng, merge=True)
        elif kind == "edge":
            yield gen_ens(rng, edge=True)
        else:
            r = rng.random()
            yield gen_ls(rng, between=(0.5 < r < 0.75), full=(r > 0.9))


# ---------------------------------------------------------------------------------------------------
# driver: the real code
# ---------------------------------------------------------------------------------------------------
def _plugin_manager():
    import numpy as np
    from ropt.plugins import PluginManager
    from ropt.plugins.sampler.base import Sampler, SamplerPlugin

    class InjectedSampler(Sampler):
        def __init__(self, cfg, idx, mask, rng):
            self._cfg, self._idx, self._mask = cfg, idx, mask
            self._design = np.array(cfg.samplers[idx].options["design"], dtype=np.float64)

        def generate_samples(self):
            d = self._design
            if self._cfg.samplers[self._idx].shared:
                d = np.repeat(d[:1], self._cfg.realizations.weights.size, axis=0)
            if self._mask is not None:
                d = np.where(self._mask, d, 0.0)
            return np.array(d, dtype=np.float64)

    class InjectedSamplerPlugin(SamplerPlugin):
        def create(self, cfg, idx, mask, rng):
            return InjectedSampler(cfg, idx, mask, rng)

        def is_supported(self, method):
            return method.lower() == "inject"

    pm = PluginManager()
    pm.add_plugin("sampler", "verif", InjectedSamplerPlugin())
    return pm


def _config_dict(case):
    no, nc = case["no"], case["nc"]
    stds = case["stds"]
    cfg = {
        "variables": {"initial_values": case["x0"]},
        "realizations": {"weights": case["weights"], "realization_min_success": case["rmin"]},
        "objectives": {"weights": case["ow"], "function_estimators": [1 if s else 0 for s in stds[:no]]},
        "function_estimators": [{"method": "mean"}, {"method": "stddev"}],
        "gradient": {"number_of_perturbations": case["P"], "perturbation_min_success": case["pmin"],
                     "perturbation_magnitudes": case["magnitudes"], "merge_realizations": case["merge"]},
    }
    if case["merge"]:
        cfg["function_estimators"] = [{"method": "mean"}]
    if case["mask"] is not None:
        cfg["variables"]["mask"] = case["mask"]
    if case["bounds"] is not None:
        cfg["variables"]["lower_bounds"] = case["bounds"][0]
        cfg["variables"]["upper_bounds"] = case["bounds"][1]
        cfg["gradient"]["boundary_types"] = case["boundary"]
    else:
        cfg["gradient"]["boundary_types"] = 1
    if nc:
        cfg["nonlinear_constraints"] = {"lower_bounds": [0.0] * nc, "upper_bounds": [1.0] * nc,
                                        "function_estimators": [1 if s else 0 for s in stds[no:]]}
    s = case["sampler"]
    if s["kind"] == "inject":
        cfg["samplers"] = [{"method": "verif/inject", "options": {"design": s["design"]}, "shared": s["shared"]}]
    else:
        cfg["samplers"] = [{"method": s["method"], "shared": s["shared"]}]
        cfg["gradient"]["seed"] = s["seed"]
    f = case["filter"]
    if f is not None:
        cfg["realization_filters"] = [{"method": f["method"], "options": f["options"]}]
        cfg["objectives"]["realization_filters"] = f["ofilt"]
        if nc:
            cfg["nonlinear_constraints"]["realization_filters"] = f["cfilt"]
    return cfg


def _propagate(rows):
    import numpy as np
    rows = np.array(rows, dtype=np.float64)
    bad = np.isnan(rows).any(axis=-1)
    rows[bad] = np.nan
    return rows


def run_ens(case):
    import warnings
    import numpy as np
    from ropt.config.enopt import EnOptConfig
    from ropt.ensemble_evaluator import EnsembleEvaluator
    from ropt.evaluator import EvaluatorResult
    from ropt.exceptions import OptimizationAborted
    from ropt.transforms import OptModelTransforms, VariableScaler

    R, P, no, nc = case["R"], case["P"], case["no"], case["nc"]
    nf = no + nc
    A = np.array(case["slopes"], dtype=np.float64)
    B = np.array(case["offsets"], dtype=np.float64)
    Q = None if case["quad"] is None else np.array(case["quad"], dtype=np.float64)
    log = {}

    def evaluator(variables, ctx):
        n = variables.shape[0]
        out = np.empty((n, nf))
        perts = ctx.perturbations
        for i in range(n):
            r = int(ctx.realizations[i])
            p = -1 if perts is None else int(perts[i])
            out[i] = A[r] @ variables[i] + B[r]
            if Q is not None:
                out[i] += Q[r] * float(np.sum(variables[i] ** 2))
            if (p < 0 and case["rfail"][r]) or (p >= 0 and case["pfail"][r][p]):
                out[i, case["failcol"][r][p + 1]] = np.nan
        if perts is not None and np.all(np.asarray(perts) >= 0) and "out" in log:
            # gradient-only request after a function request (split mode): keep the function rows in front
            log["out"] = np.vstack([log["out"][:R], out])
            log["vars"] = np.vstack([log["vars"][:R], np.array(variables, dtype=np.float64)])
        else:
            log["out"] = out.copy()
            log["vars"] = np.array(variables, dtype=np.float64)
        return EvaluatorResult(objectives=out[:, :no].copy(), constraints=out[:, no:].copy() if nc else None)

    transforms = None
    if case["scaler"] is not None:
        sc = case["scaler"]
        transforms = OptModelTransforms(variables=VariableScaler(
            np.array(sc["scales"], dtype=np.float64),
            None if sc["offsets"] is None else np.array(sc["offsets"], dtype=np.float64)))
    with warnings.catch_warnings():
        warnings.simplefilter("ignore")
        config = EnOptConfig.model_validate(_config_dict(case), context=transforms)
        ee = EnsembleEvaluator(config, transforms, evaluator, _plugin_manager())
        x = np.array(config.variables.initial_values, dtype=np.float64)
        obs = {"x": x.tolist(), "cfg_weights": np.array(config.realizations.weights, dtype=np.float64).tolist(),
               "cfg_ow": np.array(config.objectives.weights, dtype=np.float64).tolist()}
        try:
            f = g = None
            if case.get("split"):
                # the optimizer asks for the functions first and for the gradient at the same point later:
                # the gradient-only path re-uses the cached function results (weights, failures)
                try:
                    (f,) = ee.calculate(x, compute_functions=True, compute_gradients=False)
                except OptimizationAborted:
                    f = None
                if f is not None and f.functions is not None:
                    (g,) = ee.calculate(x, compute_functions=False, compute_gradients=True)
                else:   # no functions: nothing is cached, the combined request decides (fresh evaluator)
                    obs["split_fallback"] = True
                    log.clear()
                    ee = EnsembleEvaluator(config, transforms, evaluator, _plugin_manager())
            if g is None:
                f, g = ee.calculate(x, compute_functions=True, compute_gradients=True)
        except OptimizationAborted as e:
            out = _propagate(log["out"])
            obs.update({"outcome": "abort", "exit_code": int(e.exit_code.value),
                        "f0": out[:R].tolist(), "fp": out[R:].reshape(R, P, nf).tolist(),
                        "X": log["vars"][R:].reshape(R, P, -1).tolist()})
            return obs
        except (ValueError, ZeroDivisionError, FloatingPointError, np.linalg.LinAlgError) as e:
            # only legitimate when no successful realization carries weight (outside the property); Coq decides
            out = _propagate(log["out"])
            obs.update({"outcome": "error", "exception": type(e).__name__,
                        "f0": out[:R].tolist(), "fp": out[R:].reshape(R, P, nf).tolist(),
                        "X": log["vars"][R:].reshape(R, P, -1).tolist()})
            return obs
    ev = g.evaluations
    f0 = np.array(f.evaluations.objectives)
    fp = np.array(ev.perturbed_objectives)
    if nc:
        f0 = np.hstack([f0, np.array(f.evaluations.constraints)])
        fp = np.concatenate([fp, np.array(ev.perturbed_constraints)], axis=-1)
    X = np.array(ev.perturbed_variables, dtype=np.float64)
    obs.update({
        "X": X.tolist(), "f0": f0.tolist(), "fp": fp.tolist(),
        "failed_fn": [bool(v) for v in f.realizations.failed_realizations],
        "failed": [bool(v) for v in g.realizations.failed_realizations],
        # the weights in force are those of the FUNCTION results (they define the reported ensemble functions);
        # the gradient results must report the same rows (oracle clause "gradient-weights-differ")
        "ow_rows": None if f.realizations.objective_weights is None else np.array(f.realizations.objective_weights).tolist(),
        "cw_rows": None if f.realizations.constraint_weights is None else np.array(f.realizations.constraint_weights).tolist(),
        "g_ow_rows": None if g.realizations.objective_weights is None else np.array(g.realizations.objective_weights).tolist(),
        "g_cw_rows": None if g.realizations.constraint_weights is None else np.array(g.realizations.constraint_weights).tolist(),
        "fun": None if f.functions is None else
        (list(np.array(f.functions.objectives).tolist()) + (list(np.array(f.functions.constraints).tolist()) if nc else [])),
    })
    if g.gradients is None:
        obs["outcome"] = "none"
        return obs
    obs["outcome"] = "grad"
    G = np.array(g.gradients.objectives, dtype=np.float64)
    if nc:
        G = np.vstack([G, np.array(g.gradients.constraints, dtype=np.float64)])
    obs["grad"] = G.tolist()
    obs["wgrad"] = np.array(g.gradients.weighted_objective, dtype=np.float64).tolist()
    # singular values of the reported difference systems (LAPACK oracle; used by the model's own rule)
    free = np.ones(x.size, dtype=bool) if case["mask"] is None else np.array(case["mask"], dtype=bool)
    succ = ~np.isnan(fp[:, :, 0]) & ~np.isnan(f0[:, :1])
    s2, stack = [], []
    wrow = np.array(obs["cfg_weights"], dtype=np.float64)
    for r in range(R):
        D = (X[r] - x)[succ[r]][:, free]
        if obs["failed"][r] or D.shape[0] == 0:
            s2.append([])
            continue
        s2.append((np.linalg.svd(D, compute_uv=False) ** 2).tolist())
        if wrow[r] != 0:
            stack.append(D)
    obs["s2"] = s2
    obs["s2m"] = (np.linalg.svd(np.vstack(stack), compute_uv=False) ** 2).tolist() if (case["merge"] and stack) else []
    return obs


def run_ls(case):
    import numpy as np
    from ropt.ensemble_evaluator._gradient import _invert_linear_equations
    import warnings
    A = np.array(case["A"], dtype=np.float64)
    b = np.array(case["b"], dtype=np.float64)
    with warnings.catch_warnings():
        warnings.simplefilter("ignore")
        g = _invert_linear_equations(A, b)
    return {"g": np.array(g, dtype=np.float64).tolist(), "s2": (np.linalg.svd(A, compute_uv=False) ** 2).tolist()}


def run_impl(case):
    return run_ls(case) if case["kind"] == "ls" else run_ens(case)


# ---------------------------------------------------------------------------------------------------
# shared helpers on (case, obs)
# ---------------------------------------------------------------------------------------------------
def _free(case):
    return [True] * case["V"] if case["mask"] is None else [bool(m) for m in case["mask"]]


def _weights_in_force(case, obs, j):
    no = case["no"]
    rows = obs.get("ow_rows") if j < no else obs.get("cw_rows")
    if rows is None:
        return list(obs.get("cfg_weights", case["weights"]))
    return list(rows[j if j < no else j - no])


def _slopes_opt(case, r, j):
    """exact slope of realization r / function j in optimizer coordinates (Fractions)."""
    a = [Fraction(v) for v in case["slopes"][r][j]]
    if case["scaler"] is not None:
        a = [v * Fraction(s) for v, s in zip(a, case["scaler"]["scales"])]
    return a


def _bound_ok(s2, n):
    return len(s2) == n and n > 0 and sum(s2) > 0 and s2[-1] >= 0.01 * sum(s2)


def _sigma(case, obs, j):
    """standard deviation over the gradient weights (reported value when the failure sets agree)."""
    w = _weights_in_force(case, obs, j)
    failed = obs["failed"]
    if obs.get("fun") is not None and obs["failed"] == obs["failed_fn"] and not math.isnan(obs["fun"][j]):
        return abs(float(obs["fun"][j]))
    w = [0.0 if fl else float(v) for v, fl in zip(w, failed)]
    s = sum(w)
    if s == 0:
        return 0.0
    w = [v / s for v in w]
    fv = [0.0 if math.isnan(v[j]) else v[j] for v in obs["f0"]]
    N = sum(1 for v in w if v > 0)
    if N < 2:
        return 0.0
    m = sum(a * b for a, b in zip(w, fv))
    return math.sqrt(max(0.0, N / (N - 1) * sum(a * (b - m) ** 2 for a, b in zip(w, fv))))


def _scale(case, obs):
    vals = [1.0]
    for key in ("x", "X", "f0", "fp"):
        stack = [obs.get(key, [])]
        while stack:
            v = stack.pop()
            if isinstance(v, list):
                stack.extend(v)
            elif not math.isnan(v):
                vals.append(abs(v))
    big = max(vals)
    smin = [s[-1] for s in obs.get("s2", []) if s and s[-1] > 0]
    if obs.get("s2m"):
        smin.append(obs["s2m"][-1])
    amp = 1.0
    if smin and min(smin) > 0:
        amp = max(1.0, min(1e4, 1.0 / math.sqrt(min(smin))))
    return Fraction(big) * Fraction(amp)


# ---------------------------------------------------------------------------------------------------
# Gallina printer
# ---------------------------------------------------------------------------------------------------
def _coq_ens(case, obs):
    R, P, no, nc, V = case["R"], case["P"], case["no"], case["nc"], case["V"]
    nf = no + nc
    outcome = {"grad": "OGrad", "none": "ONone", "abort": "OAbort", "error": "OError"}[obs["outcome"]]
    have_grad = obs["outcome"] == "grad"
    funcs = []
    for j in range(nf):
        est = "EStd" if case["stds"][j] else "EMean"
        w = _weights_in_force(case, obs, j)
        f0 = [obs["f0"][r][j] for r in range(R)]
        fp = [[obs["fp"][r][p][j] for p in range(P)] for r in range(R)]
        grad = obs["grad"][j] if have_grad else [0.0] * V
        gnan = any(math.isnan(v) for v in grad)
        grad = [0.0 if math.isnan(v) else v for v in grad]
        sigma = _sigma(case, obs, j) if (have_grad and case["stds"][j]) else 0.0
        if math.isnan(sigma):
            sigma = 0.0
        if case["quad"] is None:
            sl = "(Some " + cq.lst(cq.lst(cq.q(v) for v in _slopes_opt(case, r, j)) for r in range(R)) + ")"
        else:
            sl = "None"
        funcs.append(f"(Build_fcase {est} {cq.qs(w)} {cq.oqs(f0)} {cq.oqmat(fp)} {cq.qs(grad)} {cq.b(gnan)} {cq.q(sigma)} {sl})")
    X = cq.lst(cq.qmat(obs["X"][r]) for r in range(R))
    s2 = cq.lst(cq.qs(s) for s in obs.get("s2", [[] for _ in range(R)]))
    failed_fn = obs.get("failed_fn", [False] * R)
    failed = obs.get("failed", [False] * R)
    wgrad = obs["wgrad"] if have_grad else [0.0] * V
    wnan = any(math.isnan(v) for v in wgrad)
    wgrad = [0.0 if math.isnan(v) else v for v in wgrad]
    return ("(Ens (Build_ens_case " + " ".join([
        cq.q(_scale(case, obs)), cq.bs(_free(case)), cq.qs(obs["x"]), X, cq.nat(case["pmin"]), cq.nat(case["rmin"]),
        cq.bs(failed_fn), cq.bs(failed), cq.b(case["merge"]), s2, cq.qs(obs.get("s2m", [])), cq.lst(funcs),
        cq.nat(no), cq.qs(obs.get("cfg_ow", case["ow"])), cq.qs(wgrad), cq.b(wnan), outcome, cq.b(case["filter"] is None)]) + "))")


def _coq_ls(case, obs):
    a = "None" if case["a"] is None else f"(Some {cq.qs(case['a'])})"
    big = max([1.0] + [abs(v) for v in case["b"]] + [abs(v) for v in (case["a"] or [])])
    smin = obs["s2"][-1] if obs["s2"] and obs["s2"][-1] > 0 else 1.0
    S = Fraction(big) * Fraction(max(1.0, min(1e4, 1.0 / math.sqrt(smin))))
    return f"(Ls {cq.nat(case['n'])} {cq.qmat(case['A'])} {cq.qs(case['b'])} {cq.qs(obs['g'])} {cq.qs(obs['s2'])} {a} {cq.q(S)})"


def coq_case(case, obs):
    return _coq_ls(case, obs) if case["kind"] == "ls" else _coq_ens(case, obs)


# ---------------------------------------------------------------------------------------------------
# oracle: the property's predicate on the implementation's output (NumPy, no model)
# ---------------------------------------------------------------------------------------------------
def _exact_rows(case, obs, ignore_bound=False):
    """For an affine case with reported gradients: list of (j, kind, exact gradient over all variables or None
    when the property does not speak about row j, number of contributing realizations)."""
    import numpy as np
    R, P, no, nc, V = case["R"], case["P"], case["no"], case["nc"], case["V"]
    free = np.array(_free(case), dtype=bool)
    nfree = int(free.sum())
    x = np.array(obs["x"], dtype=np.float64)
    X = np.array(obs["X"], dtype=np.float64)
    f0 = np.array(obs["f0"], dtype=np.float64)
    fp = np.array(obs["fp"], dtype=np.float64)
    succ = ~np.isnan(fp[:, :, 0]) & ~np.isnan(f0[:, :1])
    failed = np.isnan(f0[:, 0]) | (np.count_nonzero(~np.isnan(fp[:, :, 0]), axis=1) < case["pmin"])
    rows = []
    for j in range(no + nc):
        w = np.where(failed, 0.0, np.array(_weights_in_force(case, obs, j), dtype=np.float64))
        if not w.sum() > 0 or np.any(w < 0):
            rows.append((j, "skip", None, 0))
            continue
        w = w / w.sum()
        contrib = [r for r in range(R) if w[r] > 0]
        Ds = {r: (X[r] - x)[succ[r]][:, free] for r in contrib}
        ok = True
        for r in contrib:
            D = Ds[r]
            s2 = np.linalg.svd(D, compute_uv=False) ** 2 if D.shape[0] else np.array([])
            if ignore_bound:
                ok &= len(s2) == nfree and nfree > 0 and s2[-1] > 1e-6 * s2.sum()
            else:
                ok &= _bound_ok(list(s2), nfree)
        if not ok:
            rows.append((j, "trivial", None, len(contrib)))
            continue
        Aopt = np.array([[float(v) for v in _slopes_opt(case, r, j)] for r in range(R)])
        if case["merge"]:
            shared = all(Ds[r].shape == Ds[contrib[0]].shape and np.array_equal(Ds[r], Ds[contrib[0]]) for r in contrib)
            identical = all(np.array_equal(Aopt[r][free], Aopt[contrib[0]][free]) for r in contrib)
            if not (shared or identical):
                rows.append((j, "trivial", None, len(contrib)))
                continue
        exact = np.zeros(V)
        if not case["stds"][j]:
            exact[free] = (w[:, None] * Aopt)[:, free].sum(axis=0)
            rows.append((j, "merged" if case["merge"] else "mean", exact, len(contrib)))
        else:
            N = len(contrib)
            if N < 2:
                rows.append((j, "skip", None, N))
                continue
            fj = np.nan_to_num(f0[:, j])
            m = fj @ w
            var = N / (N - 1) * (((fj - m) ** 2) @ w)
            sd = math.sqrt(max(var, 0.0))
            if sd > 1e-6:
                exact[free] = (N / (N - 1) / sd * ((w * fj) @ Aopt - m * (w @ Aopt)))[free]
                rows.append((j, "std", exact, N))
            elif sd < 1e-12:
                rows.append((j, "std", exact, N))       # sigma == 0: the code returns zeros
            else:
                rows.append((j, "skip", None, N))
    return rows, failed


def oracle(case, obs):
    import numpy as np
    if case["kind"] == "ls":
        A = np.array(case["A"]); n = case["n"]
        if not _bound_ok(obs["s2"], n):
            return None
        g = np.array(obs["g"])
        if case["a"] is not None and not np.allclose(g, case["a"], rtol=1e-7, atol=1e-9):
            return {"clause": "invert_linear_equations_exact_on_consistent_data", "detail": {"got": obs["g"], "want": case["a"]}}
        res = A.T @ (A @ g - np.array(case["b"]))
        if not np.allclose(res, 0.0, atol=1e-9 * max(1.0, float(np.abs(A).max()) ** 2 * float(np.abs(g).max() + 1))):
            return {"clause": "invert_linear_equations_normal_equations", "detail": res.tolist()}
        return None
    if obs.get("outcome") == "abort":
        if obs.get("exit_code") != 1:
            return {"clause": "unexpected_abort_code", "detail": obs.get("exit_code")}
        return None
    if obs.get("outcome") == "error":
        f0 = np.array(obs["f0"], dtype=np.float64)
        fp = np.array(obs["fp"], dtype=np.float64)
        failed = np.isnan(f0[:, 0]) | (np.count_nonzero(~np.isnan(fp[:, :, 0]), axis=1) < case["pmin"])
        if case["filter"] is None and np.where(failed, 0.0, np.array(obs["cfg_weights"])).sum() > 0:
            return {"clause": "exception_with_surviving_weight", "detail": obs.get("exception")}
        return None
    if obs.get("outcome") != "grad":
        return None
    for kf, kg in (("ow_rows", "g_ow_rows"), ("cw_rows", "g_cw_rows")):
        if kg in obs and not ((obs[kf] is None and obs[kg] is None) or
                              (obs[kf] is not None and obs[kg] is not None and
                               np.array_equal(np.array(obs[kf], dtype=np.float64), np.array(obs[kg], dtype=np.float64)))):
            return {"clause": "gradient_results_report_other_weights_than_function_results",
                    "detail": {"function_results": obs[kf], "gradient_results": obs[kg], "which": kf}}
    free = np.array(_free(case), dtype=bool)
    G = np.array(obs["grad"], dtype=np.float64)
    wg = np.array(obs["wgrad"], dtype=np.float64)
    if G.shape != (case["no"] + case["nc"], case["V"]) or wg.shape != (case["V"],):
        return {"clause": "gradient_shape", "detail": [list(G.shape), list(wg.shape)]}
    if np.any(G[:, ~free] != 0.0) or np.any(wg[~free] != 0.0):
        return {"clause": "fixed_entries_exactly_zero", "detail": {"gradients": G.tolist(), "weighted": wg.tolist(), "mask": _free(case)}}
    scale = max(1.0, float(np.abs(np.array(case["slopes"])).max()) * (max(case["scaler"]["scales"]) if case["scaler"] else 1.0))
    want = np.array(obs["cfg_ow"], dtype=np.float64) @ G[:case["no"]]
    if not np.allclose(wg, want, rtol=1e-7, atol=1e-9 * scale, equal_nan=True):
        return {"clause": "weighted_objective_gradient", "detail": {"got": wg.tolist(), "want": want.tolist()}}
    if case["quad"] is not None:
        return None
    rows, failed = _exact_rows(case, obs)
    if [bool(v) for v in failed] != obs["failed"]:
        return {"clause": "failed_realization_flags", "detail": {"got": obs["failed"], "want": [bool(v) for v in failed]}}
    for j, kind, exact, count in rows:
        if exact is None:
            continue
        if not np.allclose(G[j], exact, rtol=1e-6, atol=1e-7 * scale):
            clause = {"mean": "mean_affine_exact", "std": "sd_chain_rule_exact", "merged": "merged_affine_exact"}[kind]
            return {"clause": clause, "detail": {"function": j, "got": G[j].tolist(), "want": exact.tolist(),
                                                 "contributing_realizations": count}}
    return None


def known_signature(case, obs, violation):
    """C02:merged-gradient-scaled -- merge_realizations=True AND reported * (#contributing) == exact."""
    import numpy as np
    if case["kind"] != "ens" or not case["merge"] or obs.get("outcome") != "grad" or case["quad"] is not None:
        return None
    if violation is not None and violation.get("clause") != "merged_affine_exact":
        return None
    G = np.array(obs["grad"], dtype=np.float64)
    rows, _ = _exact_rows(case, obs, ignore_bound=True)
    scale = max(1.0, float(np.abs(np.array(case["slopes"])).max()) * (max(case["scaler"]["scales"]) if case["scaler"] else 1.0))
    seen = False
    for j, kind, exact, count in rows:
        if kind == "skip":
            continue
        if kind != "merged" or exact is None or count < 1:
            return None
        if not np.allclose(G[j] * count, exact, rtol=1e-6, atol=1e-7 * scale):
            return None
        if count > 1 and not np.allclose(G[j], exact, rtol=1e-6, atol=1e-7 * scale):
            seen = True
    return KNOWN_ID if seen else None


def _cond_ok(case, obs):
    rows, _ = _exact_rows(case, obs)
    return any(e is not None for _, _, e, _ in rows) and all(k != "trivial" for _, k, _, _ in rows)


def nontrivial(case, obs):
    if case["kind"] == "ls":
        return _bound_ok(obs["s2"], case["n"])
    if obs.get("outcome") != "grad" or case["quad"] is not None or case["merge"]:
        return False
    return _cond_ok(case, obs)


def features(case, obs):
    if case["kind"] == "ls":
        return {"kind": "ls", "ls_n": case["n"], "ls_bound": _bound_ok(obs["s2"], case["n"]), "ls_consistent": case["a"] is not None}
    s = case["sampler"]
    out = {"kind": "ens", "outcome": obs.get("outcome"), "V": case["V"], "R": case["R"], "P": case["P"],
           "nfree": sum(_free(case)), "functions": case["no"] + case["nc"],
           "sampler": "inject" if s["kind"] == "inject" else s["method"], "shared": s["shared"],
           "merge": case["merge_mode"] or "no", "affine": case["quad"] is None, "stddev": any(case["stds"]),
           "perturbation_failures": any(any(r) for r in case["pfail"]), "realization_failures": any(case["rfail"]),
           "filter": case["filter"]["method"] if case["filter"] else "none", "scaler": case["scaler"] is not None,
           "bounds": "none" if case["bounds"] is None else "set", "zero_weight": any(w == 0 for w in case["weights"]),
           "request": ("split-fallback" if obs.get("split_fallback") else "functions-then-gradient") if case.get("split") else "combined"}
    if obs.get("outcome") == "grad" and case["quad"] is None:
        out["inside_1pct_bound"] = _cond_ok(case, obs)
    return out


# ---------------------------------------------------------------------------------------------------
# shrinking and violation search
# ---------------------------------------------------------------------------------------------------
def _drop_realization(case, r):
    c = dict(case)
    for key in ("weights", "slopes", "offsets", "pfail", "rfail", "failcol"):
        c[key] = case[key][:r] + case[key][r + 1:]
    if case["quad"] is not None:
        c["quad"] = case["quad"][:r] + case["quad"][r + 1:]
    s = dict(case["sampler"])
    if s["kind"] == "inject" and not s["shared"]:
        s["design"] = s["design"][:r] + s["design"][r + 1:]
    c["sampler"] = s
    c["R"] = case["R"] - 1
    c["rmin"] = min(case["rmin"], c["R"])
    if not any(c["weights"]):
        return None
    return c


def _drop_function(case, j):
    no, nc = case["no"], case["nc"]
    if j < no and no == 1:
        return None
    c = dict(case)
    c["stds"] = case["stds"][:j] + case["stds"][j + 1:]
    c["slopes"] = [row[:j] + row[j + 1:] for row in case["slopes"]]
    c["offsets"] = [row[:j] + row[j + 1:] for row in case["offsets"]]
    if case["quad"] is not None:
        c["quad"] = [row[:j] + row[j + 1:] for row in case["quad"]]
    if j < no:
        c["no"] = no - 1
        c["ow"] = case["ow"][:j] + case["ow"][j + 1:]
        if not any(c["ow"]):
            return None
    else:
        c["nc"] = nc - 1
    c["failcol"] = [[min(v, no + nc - 2) for v in row] for row in case["failcol"]]
    c["filter"] = None
    return c


def shrink(case):
    if case["kind"] != "ens":
        return
    if case["filter"] is not None:
        yield {**case, "filter": None}
    if case["scaler"] is not None:
        yield {**case, "scaler": None}
    if case["bounds"] is not None:
        yield {**case, "bounds": None, "boundary": None}
    if any(any(r) for r in case["pfail"]) or any(case["rfail"]):
        yield {**case, "pfail": [[False] * case["P"] for _ in range(case["R"])], "rfail": [False] * case["R"]}
    for r in range(case["R"] - 1, -1, -1):
        if case["R"] > 1:
            c = _drop_realization(case, r)
            if c is not None:
                yield c
    for j in range(case["no"] + case["nc"] - 1, -1, -1):
        c = _drop_function(case, j)
        if c is not None:
            yield c
    if case["mask"] is not None and all(case["mask"]):
        yield {**case, "mask": None}
    if isinstance(case["magnitudes"], list):
        yield {**case, "magnitudes": 0.25}


def search(rng, case):
    """extra cases near a disagreeing one, judged by the oracle only: affine, injected designs, same switches."""
    merge = bool(case and case.get("kind") == "ens" and case.get("merge"))
    for k in range(600):
        if case is not None and case.get("kind") == "ls":
            yield gen_ls(rng, between=(k % 3 == 0))
            continue
        if k % 4 == 3:
            yield gen_ens(rng, sampler=METHODS[k % len(METHODS)], small=True, merge=merge)
        elif k % 4 == 2:
            yield gen_ens(rng, merge=merge, simple=True)
        else:
            yield gen_ens(rng, merge=merge)
    if case is None or case.get("kind") == "ls":
        for k in range(300):
            yield gen_ls(rng, between=(k % 2 == 0))


MANIFEST = {
    "level_text": (
        "Machine-checked Coq proofs about the executable model of ropt's gradient estimation (Model/Gradient.v: difference "
        "systems, dropping of failed rows, certified exact least squares, merged weighted least squares, weight zeroing and "
        "renormalisation, mean and stddev estimators, restriction to free variables and re-expansion with zeros), for all "
        "sizes, masks, weights and failure patterns: any vector passing the normal-equation test equals the generating slope "
        "under full column rank; on affine ensembles the per-realization estimate of every function equals the "
        "normalised-weight combination of the slopes, the merged estimate does so for shared perturbations or identical "
        "realizations, the stddev gradient equals the chain-rule expression, which is proved to be the derivative of the "
        "variance polynomial; entries of fixed variables are the literal 0; the weighted-objective gradient is the weighted sum; "
        "and under the property's 1 % conditioning bound the code's 99.9 % energy rule (with the SVD_TOLERANCE constant "
        "re-extracted from the source on every run) truncates nothing.  The model is tied to the code on every run by an "
        "in-Coq correspondence: the real EnsembleEvaluator.calculate and _invert_linear_equations are run on generated cases "
        "and Coq recomputes the exact gradients from the reported perturbed variables and values and compares."),
    "level_note": (
        "Trusted / modelled, not verified: LAPACK's SVD (the code's truncated pseudo-inverse is modelled as an exact "
        "least-squares solve; that the two agree is established only by the per-run numerical correspondence and, for the "
        "truncation decision, by the no-truncation theorem); NumPy singular values decide whether a case's values are "
        "compared (through the model's own truncation rule) and whether it counts as non-trivial; float rounding (exact "
        "rationals + tolerance); the Python driver, the injected sampler plug-in and the table-driven evaluator; the Coq "
        "kernel/VM and the translator.  The model's solver is an untrusted Cramer proposer whose result is accepted only if it "
        "satisfies the normal equations exactly; proofs use only the acceptance test, so completeness of the proposer (that "
        "it finds a solution whenever the rank is full) is tested, not proved.  Realization filters, bounds and magnitudes "
        "are not modelled here: the reported weight rows and reported perturbed variables are inputs.  Merged estimation is "
        "modelled as the property states it (weighted least squares); the current code scales the merged gradient by 1/number "
        "of contributing realizations: known finding C02:merged-gradient-scaled, reported as KNOWN-FINDING on every run. "
        "All theorems print 'Closed under the global context'."),
    "technique": "Coq proofs (list induction over Q, translation-validated least squares) + in-Coq differential correspondence with the real evaluator",
    "design_ref": "DESIGN.md section 4, C02",
}
