"""C08 -- the problem handed to SciPy is equivalent to the configured problem.

Correspondence: the real SciPy plug-in is constructed (through EnsembleOptimizer) for a configured problem
and started with `minimize` / `differential_evolution` replaced by a driver that captures the keyword
arguments and evaluates the passed constraint dicts / LinearConstraint / NonlinearConstraint / Bounds at
test points (through the real callback, EnsembleEvaluator and a deterministic affine evaluator).  Coq runs
Model/ScipyProblem.v on the same problem and compares: accept/reject, x0, Bounds, constraint structure,
masked linear constraints, options, and at every test point the normalised values / Jacobians; it also
evaluates the property itself on the observation (feasible-set equivalence, Jacobian = derivative of value).
"""
from __future__ import annotations

import itertools
import math

import coqio as cq

ID = "C08"
THEOREM_FILE = "Props/C08.v"
CHK_MODULE = "Check.Chk_C08"
CASE_TYPE = "Chk_C08.case"
CHECK_FN = "Chk_C08.check_case"
HEADER = "From Ropt Require Import Model.ScipyProblem Gen.Generated Gen.Gen_C08.\nOpen Scope nat_scope."
SHARD_SIZE = 150
PARALLEL = True
EXHAUSTIVE = {"quick": True, "thorough": True}
KNOWN_ID = "C08:max-iterations-dropped-without-options"

INF = float("inf")
KINDS = ["eq", "lo", "up", "two", "free"]
CONSTRAINED = ["slsqp", "cobyla", "differential_evolution"]
OTHERS = ["l-bfgs-b", "bfgs", "cg", "newton-cg", "tnc", "nelder-mead", "powell"]
N_POINTS = 4


# --------------------------------------------------------------------------------------------------
# translator: constants of the anchored code that the model / theorems are instantiated with
# --------------------------------------------------------------------------------------------------
def translate(repo):
    import ast
    import inspect

    import translator as tr
    E = tr.TranslatorError

    def find(body, cls, name):
        hits = [n for n in body if isinstance(n, cls) and n.name == name]
        if len(hits) != 1:
            raise E(f"expected exactly one {name}")
        return hits[0]

    u = tr.parse("plugins/optimizer/utils.py")
    init = find(find(u.body, ast.ClassDef, "NormalizedConstraints").body, ast.FunctionDef, "__init__")
    tols = []
    for node in ast.walk(init):
        if (isinstance(node, ast.Compare) and len(node.ops) == 1 and isinstance(node.left, ast.Call)
                and isinstance(node.left.func, ast.Name) and node.left.func.id == "abs"):
            c = node.comparators[0]
            if not (isinstance(node.ops[0], ast.Lt) and isinstance(c, ast.Constant) and isinstance(c.value, float)):
                raise E("NormalizedConstraints.__init__: the equality test is not `abs(..) < <float>`")
            tols.append(c.value)
    if len(tols) != 1 or not 0 < tols[0] < 1e-6:
        raise E(f"NormalizedConstraints.__init__: expected one equality tolerance, found {tols}")
    atols = set()
    for fn in ("_validate_linear_constraints", "_validate_nonlinear_constraints"):
        f = find(u.body, ast.FunctionDef, fn)
        calls = [n for n in ast.walk(f) if isinstance(n, ast.Call) and isinstance(n.func, ast.Attribute)
                 and n.func.attr == "allclose"]
        if len(calls) != 2:
            raise E(f"{fn}: expected two np.allclose calls")
        for c in calls:
            kw = {k.arg: k.value for k in c.keywords}
            if set(kw) != {"rtol", "atol"} or not all(isinstance(v, ast.Constant) for v in kw.values()):
                raise E(f"{fn}: np.allclose keywords are not literal rtol/atol")
            if kw["rtol"].value != 0.0 or not isinstance(kw["atol"].value, float):
                raise E(f"{fn}: rtol is not 0.0")
            atols.add(kw["atol"].value)
    if len(atols) != 1:
        raise E(f"np.allclose tolerances differ: {atols}")

    sp = tr.parse("plugins/optimizer/scipy.py")
    po = find(find(sp.body, ast.ClassDef, "SciPyOptimizer").body, ast.FunctionDef, "_parse_options")

    def key_assign(stmts):
        if len(stmts) == 1 and isinstance(stmts[0], ast.Assign) and len(stmts[0].targets) == 1:
            t, v = stmts[0].targets[0], stmts[0].value
            if (isinstance(t, ast.Subscript) and isinstance(t.value, ast.Name) and t.value.id == "options"
                    and isinstance(t.slice, ast.Constant) and isinstance(t.slice.value, str)
                    and isinstance(v, ast.Name) and v.id == "iterations"):
                return t.slice.value
        return None
    special, default = [], []
    for node in ast.walk(po):
        if isinstance(node, ast.If) and isinstance(node.test, ast.Compare) and len(node.test.ops) == 1 \
                and isinstance(node.test.ops[0], ast.Eq) and isinstance(node.test.left, ast.Attribute) \
                and node.test.left.attr == "_method" and isinstance(node.test.comparators[0], ast.Constant):
            a, b = key_assign(node.body), key_assign(node.orelse)
            if a is not None and b is not None:
                special.append((node.test.comparators[0].value, a))
                default.append(b)
    if len(special) != 1 or len(default) != 1:
        raise E("_parse_options: expected `if self._method == <m>: options[<k>] = iterations else: options[<k'>] = iterations`")

    # what SciPy itself can handle (its own lists in scipy.optimize.minimize)
    import scipy.optimize._minimize as som
    from scipy.optimize import differential_evolution
    mtree = ast.parse(inspect.getsource(som.minimize))
    can = {}
    for node in ast.walk(mtree):
        if not isinstance(node, ast.If):
            continue
        warn = [n for n in ast.walk(node) if isinstance(n, ast.Constant) and isinstance(n.value, str)
                and "cannot handle" in n.value]
        tuples = [n for n in ast.walk(node.test) if isinstance(n, ast.Compare) and len(n.ops) == 1
                  and isinstance(n.ops[0], ast.NotIn) and isinstance(n.left, ast.Name) and n.left.id == "meth"
                  and isinstance(n.comparators[0], ast.Tuple)]
        if len(warn) == 1 and len(tuples) == 1 and len(node.body) == 1:
            what = "constraints" if "constraints" in warn[0].value else "bounds" if "bounds" in warn[0].value else None
            names = [e.value for e in tuples[0].comparators[0].elts if isinstance(e, ast.Constant) and isinstance(e.value, str)]
            if what is None or len(names) != len(tuples[0].comparators[0].elts) or what in can:
                raise E("scipy.optimize.minimize: unexpected shape of a 'cannot handle' test")
            can[what] = set(names)
    if set(can) != {"constraints", "bounds"}:
        raise E("scipy.optimize.minimize: 'cannot handle constraints/bounds' tests not found")
    de_params = set(inspect.signature(differential_evolution).parameters)
    if not {"bounds", "constraints", "maxiter", "vectorized"} <= de_params:
        raise E("scipy.optimize.differential_evolution: unexpected signature")
    for k in can:
        can[k].add("differential_evolution")
        can[k].discard("_custom")

    out = ["(* GENERATED on every run by harness/props/C08.py:translate from /repo sources and the installed SciPy -- do not edit. *)",
           "From Coq Require Import QArith ZArith List String.",
           "From Ropt Require Import Base.Num.",
           "Import ListNotations.", "",
           f"Definition norm_eq_tol : Q := {tr.cq(tols[0])}.   (* {tols[0]!r}: abs(upper - lower) < tol in NormalizedConstraints.__init__ *)",
           f"Definition allclose_atol : Q := {tr.cq(atols.copy().pop())}.   (* np.allclose(lower, upper, rtol=0.0, atol=..) in _validate_*_constraints *)",
           "Definition iter_key_special : list (string * string) := ["
           + "; ".join(f"({tr.cstr(m)}, {tr.cstr(k)})" for m, k in special) + "].",
           f"Definition iter_key_default : string := {tr.cstr(default[0])}.",
           "(* methods for which scipy.optimize.minimize does NOT warn 'cannot handle constraints' / 'cannot handle bounds' *)",
           f"Definition scipy_can_constraints : list string := {tr.cstrs(can['constraints'])}.",
           f"Definition scipy_can_bounds : list string := {tr.cstrs(can['bounds'])}.", ""]
    return {"Gen/Gen_C08.v": "\n".join(out)}


# --------------------------------------------------------------------------------------------------
# generators
# --------------------------------------------------------------------------------------------------
def _dy(rng, lo, hi, den=4):
    return rng.randint(lo * den, hi * den) / den


def _bounds_of(rng, kind, v0):
    """bounds of one constraint of the given kind; mostly anchored on its value at test point 0"""
    a = v0 - rng.choice([0.0, 0.0, 0.5, 1.0]) if rng.random() < 0.7 else _dy(rng, -3, 3)
    if kind == "eq":
        a = v0 if rng.random() < 0.7 else a
        return [a, a]
    if kind == "lo":
        return [a, INF]
    if kind == "up":
        return [-INF, a + rng.choice([0.0, 0.5, 1.0, 2.0])]
    if kind == "two":
        return [a, a + rng.choice([0.25, 1.0, 2.0, 3.0])]
    return [-INF, INF]


BOUND_PATTERNS = ["lower-only-all", "upper-only-all", "one-lower", "one-upper", "lower-and-upper-on-different-variables",
                  "all-finite", "fixed-variable-only", "free-variables-only"]


def _pattern_bounds(rng, pattern, x0, free):
    """variable bounds of a named finite/infinite pattern (None when the pattern needs a mask and there is none)"""
    n = len(x0)
    lower, upper = [-INF] * n, [INF] * n
    lo = [v - rng.choice([0.0, 0.5, 1.0, 2.0]) for v in x0]
    up = [v + rng.choice([0.0, 0.5, 1.0, 2.0]) for v in x0]
    fixed = [i for i, f in enumerate(free) if not f]
    frees = [i for i, f in enumerate(free) if f]
    if pattern == "lower-only-all":
        lower = lo
    elif pattern == "upper-only-all":
        upper = up
    elif pattern == "one-lower":
        i = rng.randrange(n)
        lower[i] = lo[i]
    elif pattern == "one-upper":
        i = rng.randrange(n)
        upper[i] = up[i]
    elif pattern == "lower-and-upper-on-different-variables":
        i = rng.randrange(n)
        lower[i] = lo[i]
        upper[(i + 1) % n] = up[(i + 1) % n]
    elif pattern == "all-finite":
        lower, upper = lo, up
    elif pattern == "fixed-variable-only":
        if not fixed:
            return None
        i = rng.choice(fixed)
        if rng.random() < 0.5:
            lower[i] = lo[i]
        else:
            upper[i] = up[i]
    elif pattern == "free-variables-only":
        if not fixed:
            return None
        for i in frees:
            if rng.random() < 0.5:
                lower[i] = lo[i]
            else:
                upper[i] = up[i]
    return lower, upper


def make_case(rng, method, nk, lk, pattern=None, masked=None):
    n_full = rng.choice([2, 3])
    mask = None
    if (rng.random() < 0.5) if masked is None else masked:
        mask = [rng.random() < 0.6 for _ in range(n_full)]
        if all(mask):
            mask[rng.randrange(n_full)] = False
        if not any(mask):
            mask[rng.randrange(n_full)] = True
    free = [True] * n_full if mask is None else mask
    x0c = [_dy(rng, -1, 1) for _ in range(n_full)]          # the configured initial values
    # the vector the optimizer is started from: mostly the configured initial values, sometimes an explicit one
    start = None
    if rng.random() < 0.35:
        start = [v + rng.choice([0.5, -0.5, 1.0, -1.25]) for v in x0c]
    x0 = start if start is not None else x0c
    # variable bounds
    no_bounds_method = method in ("bfgs", "cg", "newton-cg", "cobyla")
    style = rng.random()
    lower, upper = [-INF] * n_full, [INF] * n_full
    if method == "differential_evolution" and style < 0.9 or (not no_bounds_method and style < 0.7) or style < 0.15:
        for i in range(n_full):
            k = "both" if method == "differential_evolution" and style < 0.8 else rng.choice(["none", "lo", "up", "both"])
            if k in ("lo", "both"):
                lower[i] = x0[i] - rng.choice([0.0, 0.5, 1.0, 2.0])
            if k in ("up", "both"):
                upper[i] = x0[i] + rng.choice([0.0, 0.5, 1.0, 2.0])
    if pattern is not None:
        forced = _pattern_bounds(rng, pattern, x0, free)
        if forced is not None:
            lower, upper = forced
    # test points (free variables); the first is the initial point moved a little
    nfree = sum(free)
    x0f = [v for v, f in zip(x0, free) if f]
    points = [[v + rng.choice([0.0, 0.0, 0.25, -0.25]) for v in x0f]]
    for _ in range(N_POINTS - 1):
        points.append([v + _dy(rng, -2, 2) for v in x0f] if rng.random() < 0.7 else [_dy(rng, -3, 3) for _ in range(nfree)])

    def complete(p):
        it = iter(p)
        return [next(it) if f else v for v, f in zip(x0, free)]
    full0 = complete(points[0])
    # affine ensemble constraint functions  c + rshift*r + lin.x  (realization weights 3/4, 1/4 -> mean shift rshift/4)
    cons = []
    for _ in nk:
        cons.append({"c": _dy(rng, -2, 2), "rshift": _dy(rng, -1, 1, 1) * 1.0, "lin": [_dy(rng, -2, 2, 2) for _ in range(n_full)],
                     "quad": [0.0] * n_full})
    funcs = {"obj": {"c": 0.0, "rshift": 0.5, "lin": [_dy(rng, -1, 1) for _ in range(n_full)], "quad": [1.0] * n_full},
             "con": cons}
    nl = None
    if nk:
        nl = []
        for k, f in zip(nk, cons):
            v0 = f["c"] + f["rshift"] / 4 + sum(a * b for a, b in zip(f["lin"], full0))
            nl.append(_bounds_of(rng, k, v0))
    lin = None
    if lk:
        A, lb, ub = [], [], []
        for k in lk:
            row = [_dy(rng, -2, 2, 2) for _ in range(n_full)]
            if mask is not None and rng.random() < 0.65:
                row = [a if f else 0.0 for a, f in zip(row, free)]
            if all(a == 0 for a, f in zip(row, free) if f):
                row[free.index(True)] = 1.0
            v0 = sum(a * b for a, b in zip(row, full0))
            b = _bounds_of(rng, k, v0)
            A.append(row)
            lb.append(b[0])
            ub.append(b[1])
        lin = {"A": A, "lb": lb, "ub": ub}
    # options
    r = rng.random()
    if r < 0.3:
        options = None
    elif r < 0.4:
        options = {"list": ["--verbose"]}
    elif r < 0.6:
        options = {"dict": {}}
    elif r < 0.8:
        options = {"dict": {("maxfun" if method == "tnc" else "maxiter"): rng.randint(60, 99)}}
    elif r < 0.9:
        options = {"dict": {"disp": False, "maxiter": 77, "maxfun": 55} if method == "tnc" else {"disp": False}}
    else:
        options = {"dict": {"seed": 3} if method == "differential_evolution" else {"disp": False}}
    prob = {"method": method,
            "spelling": rng.choice([method, method.upper(), "scipy/" + method, "SciPy/" + method.title()]
                                   + (["default", "scipy/default"] if method == "slsqp" else [])),
            "mask": mask, "x0": x0c, "start": start, "lower": lower, "upper": upper, "nl": nl, "lin": lin, "options": options,
            # inside the known finding's region (options not a dict) a limit is configured less often: each such
            # case costs a twin (see gen_cases)
            "max_iter": rng.randint(1, 50) if rng.random() < (0.6 if options is not None and "dict" in options else 0.3) else None,
            "output_dir": "/tmp/verif_c08_out" if rng.random() < 0.2 else None,
            "types": [rng.choice([1, 2]) for _ in range(n_full)] if mask is None and rng.random() < 0.25 else None,
            "parallel": rng.random() < 0.3,
            "tol": rng.choice([None, None, 1.0 / 1024, 0.0])}
    # max_functions is ropt's own evaluation budget (EnsembleOptimizer stops the run): it must never displace the
    # iteration limit in the back-end's options, whichever of the two is larger
    mi = prob["max_iter"]
    # (at least 12: the capturing driver itself evaluates the constraint callables at the 4 test points through the real callback)
    prob["max_functions"] = rng.choice([None, None, 12 + rng.randint(0, 4), (mi or 20) + rng.randint(12, 200), max(12, mi or 20)])
    return {"prob": prob, "funcs": funcs, "points": points, "kinds": [list(nk), list(lk)], "pattern": pattern}


def _combos(n):
    out = []
    for k in range(n + 1):
        out += list(itertools.product(KINDS, repeat=k))
    return out


def in_known_region(prob):
    """the input region of known finding C08:max-iterations-dropped-without-options"""
    o = prob["options"]
    return (o is None or "list" in o) and prob["max_iter"] is not None


def gen_cases(tier, rng):
    """every case inside the known finding's region is followed by a twin that differs only in max_iterations = None:
    a failing case that matches the known finding is reported as KNOWN-FINDING whatever else is wrong with it, so
    everything else about the same configuration is judged on the twin, where nothing can hide"""
    for case in _gen_cases(tier, rng):
        yield case
        if in_known_region(case["prob"]):
            yield {**case, "prob": {**case["prob"], "max_iter": None}, "twin": True}


def _gen_cases(tier, rng):
    # variable bounds of every finite/infinite pattern for every method (also those without bound support), with and
    # without a mask
    for method in CONSTRAINED + OTHERS:
        for pattern in BOUND_PATTERNS:
            for masked in (False, True):
                if not masked and pattern in ("fixed-variable-only", "free-variables-only"):
                    continue
                for _ in range(1 if tier == "quick" else 4):
                    nk, lk = ((), ())
                    if method in CONSTRAINED and rng.random() < 0.5:
                        nk, lk = rng.choice([(("lo",), ()), ((), ("up",)), (("two",), ("lo",))])
                    yield make_case(rng, method, nk, lk, pattern=pattern, masked=masked)
    combos = _combos(2 if tier == "quick" else 3)
    for method in CONSTRAINED:
        for nk in combos:
            for lk in combos:
                yield make_case(rng, method, nk, lk)
    small = _combos(1)
    for method in OTHERS:
        for rep in range(4 if tier == "quick" else 40):
            for nk in small:
                for lk in small:
                    if (nk or lk) and rep >= (1 if tier == "quick" else 4):
                        continue      # these are rejected; the variation is in bounds / options / masks
                    yield make_case(rng, method, nk, lk)
        for _ in range(40 if tier == "quick" else 400):
            yield make_case(rng, method, (), ())
    for _ in range(150 if tier == "quick" else 2000):      # more option / bounds / mask variation
        yield make_case(rng, rng.choice(CONSTRAINED), (), ())


# --------------------------------------------------------------------------------------------------
# running the real code
# --------------------------------------------------------------------------------------------------
def _oval(v):
    import numpy as np
    if isinstance(v, (bool, np.bool_)):
        return bool(v)
    if isinstance(v, (int, np.integer)):
        return int(v)
    if isinstance(v, str):
        return v
    if isinstance(v, np.ndarray) and v.dtype == bool:
        return [bool(t) for t in v]
    return "?" + type(v).__name__


def _probe(which, kw, cons_struct):
    """ask the real SciPy whether it would ignore what it is handed (its own 'cannot handle' / 'Unknown
    solver options' warnings) on a trivial quadratic with the captured method, bounds, constraint types
    and options"""
    import warnings

    import numpy as np
    import scipy.optimize as so
    if which != "minimize":
        return []
    x0 = np.asarray(kw["x0"], dtype=float)
    e0 = np.zeros_like(x0)
    e0[0] = 1.0
    cons = []
    for typ, has_jac in cons_struct:
        c = {"type": typ, "fun": (lambda x: float(x[0] - x0[0]))}
        if has_jac:
            c["jac"] = lambda x: e0
        cons.append(c)
    opts = dict(kw["options"]) if kw.get("options") else None
    if opts and opts.get("disp"):
        opts["disp"] = False
    msgs = []
    with warnings.catch_warnings(record=True) as w:
        warnings.simplefilter("always")
        try:
            so.minimize(lambda x: float(((x - 0.25) ** 2).sum()), x0, method=kw["method"],
                        jac=(lambda x: 2 * (x - 0.25)) if callable(kw.get("jac")) else None,
                        bounds=kw.get("bounds"), constraints=cons, tol=kw.get("tol"), options=opts)
        except Exception as e:  # noqa: BLE001
            msgs.append("exception: " + type(e).__name__ + ": " + str(e)[:120])
        msgs += [str(x.message)[:160] for x in w]
    return [m for m in msgs if "cannot handle" in m or "Unknown solver options" in m or m.startswith("exception")]


def run_impl(case):
    import warnings

    import numpy as np
    from props import C07 as base
    warnings.simplefilter("ignore")
    prob = case["prob"]
    env = base.Env(prob, case["funcs"])
    points = [np.array(p, dtype=float) for p in case["points"]]

    def driver(which, kw):
        cons = list(kw.get("constraints") or [])
        dicts = [c for c in cons if isinstance(c, dict)]
        lin = [c for c in cons if type(c).__name__ == "LinearConstraint"]
        nlc = [c for c in cons if type(c).__name__ == "NonlinearConstraint"]
        obs = {"rejected": False, "which": which,
               "x0": [float(v) for v in np.ravel(kw["x0"])],
               "bounds": None if kw.get("bounds") is None else
               [[float(v) for v in np.ravel(kw["bounds"].lb)], [float(v) for v in np.ravel(kw["bounds"].ub)]],
               "jac": callable(kw.get("jac")),
               "cons": [[c["type"], "jac" in c] for c in dicts],
               "n_other": len(cons) - len(dicts) - len(lin) - len(nlc),
               "lin": None, "nl": None, "points": []}
        if len(lin) > 1 or len(nlc) > 1:
            obs["n_other"] += 1
        if lin:
            obs["lin"] = {"A": [[float(v) for v in row] for row in np.atleast_2d(lin[0].A)],
                          "lb": [float(v) for v in np.ravel(lin[0].lb)], "ub": [float(v) for v in np.ravel(lin[0].ub)]}
        if nlc:
            obs["nl"] = [[float(a), float(b)] for a, b in zip(np.ravel(nlc[0].lb), np.ravel(nlc[0].ub))]
        if which == "minimize":
            obs["options"] = {k: _oval(v) for k, v in (kw.get("options") or {}).items()}
            obs["vectorized"] = False
            obs["tol"] = kw.get("tol")
            obs["method"] = kw.get("method")
            extra = set(kw) - {"fun", "x0", "tol", "method", "bounds", "jac", "constraints", "options"}
        else:
            skip = {"func", "x0", "bounds", "constraints", "vectorized", "polish"}
            obs["options"] = {k: _oval(v) for k, v in kw.items() if k not in skip}
            obs["vectorized"] = bool(kw.get("vectorized"))
            obs["tol"] = None
            obs["method"] = "differential_evolution"
            extra = set()
        obs["extra_kwargs"] = sorted(extra)
        for x in points:
            f, g = env.oracle(x)
            vals, jacs = [], []
            for c in dicts:
                vals.append([float(v) for v in np.ravel(c["fun"](x.copy()))])
                if "jac" in c:
                    jacs.append([float(v) for v in np.ravel(c["jac"](x.copy()))])
            for c in nlc:
                vals.append([float(v) for v in np.ravel(c.fun(x.copy()))])
            obs["points"].append({"x": [float(v) for v in x], "c": f[1], "J": g[1], "vals": vals, "jacs": jacs})
        obs["scipy"] = _probe(which, kw, obs["cons"])
        return obs

    try:
        out = env.start(driver)
    except NotImplementedError as e:
        return {"rejected": True, "message": str(e)[:200]}
    if "result" not in out:
        raise RuntimeError("the plug-in did not call minimize / differential_evolution")
    return out["result"]


# --------------------------------------------------------------------------------------------------
# Gallina printing
# --------------------------------------------------------------------------------------------------
def _scale(case, obs):
    vals = [1.0]
    p = case["prob"]
    for seq in (p["x0"], p.get("start") or [], p["lower"], p["upper"]):
        vals += [abs(v) for v in seq if math.isfinite(v)]
    for pt in obs.get("points", []):
        vals += [abs(v) for v in pt["x"]] + [abs(v) for v in pt["c"]] + [abs(v) for r in pt["vals"] for v in r if math.isfinite(v)]
    return max(vals)


def _lincons(L):
    return f"(Build_lincons {cq.qmat(L['A'])} {cq.ers(L['lb'])} {cq.ers(L['ub'])})"


def coq_case(case, obs):
    from props import C07 as base
    prob = case["prob"]
    pterm = base.problem_term(prob)
    if obs.get("rejected"):
        return f"(Build_case {pterm} {cq.q(1)} None [])"
    bounds = "None" if obs["bounds"] is None else f"(Some ({cq.ers(obs['bounds'][0])}, {cq.ers(obs['bounds'][1])}))"
    cons = cq.lst(f"({cq.b(t == 'eq')}, {cq.b(j)})" for t, j in obs["cons"])
    if obs["n_other"] or obs["extra_kwargs"] or any(t not in ("eq", "ineq") for t, _ in obs["cons"]):
        cons = cq.lst(["(true, true)"] * 97)          # unknown objects were passed: can never match the model
    lin = "None" if obs["lin"] is None else f"(Some {_lincons(obs['lin'])})"
    nl = "None" if obs["nl"] is None else "(Some " + cq.lst(base.er_pair(a, b) for a, b in obs["nl"]) + ")"
    opts = cq.lst(f"({cq.s(k)}, {base.oval_term(v)})" for k, v in sorted(obs["options"].items()))
    tol = "None" if obs["tol"] is None else f"(Some {cq.q(obs['tol'])})"
    o = (f"(Build_obs_handed {cq.b(obs['which'] != 'minimize')} {cq.qs(obs['x0'])} {bounds} {cq.b(obs['jac'])} {cons} "
         f"{lin} {nl} {opts} {cq.b(obs['vectorized'])} {tol} {cq.s(obs['method'])})")
    pts = cq.lst(f"(Build_tpoint {cq.qs(p['x'])} {cq.qs(p['c'])} {cq.qmat(p['J'])} {cq.qmat(p['vals'])} {cq.qmat(p['jacs'])})"
                 for p in obs["points"])
    return f"(Build_case {pterm} {cq.q(_scale(case, obs))} (Some {o}) {pts})"


# --------------------------------------------------------------------------------------------------
# the property evaluated directly on the observation (independent of the model)
# --------------------------------------------------------------------------------------------------
def _within(lo, v, hi):
    return lo <= v <= hi


def oracle(case, obs):
    prob = case["prob"]
    if obs.get("rejected"):
        return None          # rejecting is what the property asks for when something cannot be honoured
    m = prob["method"]
    free = [True] * len(prob["x0"]) if prob["mask"] is None else prob["mask"]
    # -- unsupported kinds are rejected rather than dropped: SciPy itself says whether it ignores them
    dropped = [s for s in obs["scipy"] if "cannot handle" in s]
    if dropped:
        return {"clause": "unsupported-kind-accepted", "detail": dropped}
    if obs["n_other"] or obs["extra_kwargs"]:
        return {"clause": "unexpected-objects-handed-over", "detail": [obs["n_other"], obs["extra_kwargs"]]}
    # -- only the free variables are exposed
    started = prob["start"] if prob.get("start") is not None else prob["x0"]
    x0f = [v for v, f in zip(started, free) if f]
    if obs["x0"] != x0f:
        return {"clause": "free-variables-exposed", "detail": {"x0": obs["x0"], "expected": x0f}}
    lo = [v for v, f in zip(prob["lower"], free) if f]
    hi = [v for v, f in zip(prob["upper"], free) if f]
    if obs["bounds"] is not None and (len(obs["bounds"][0]) != len(x0f) or len(obs["bounds"][1]) != len(x0f)):
        return {"clause": "free-variables-exposed", "detail": {"bounds": obs["bounds"]}}
    if obs["lin"] is not None and any(len(r) != len(x0f) for r in obs["lin"]["A"]):
        return {"clause": "free-variables-exposed", "detail": {"A": obs["lin"]["A"]}}
    # -- feasible-set equivalence at the test points
    L = prob["lin"]
    for k, pt in enumerate(obs["points"]):
        x = pt["x"]
        it = iter(x)
        full = [next(it) if f else v for v, f in zip(started, free)]
        conf_must = all(_within(a, v, b) for a, v, b in zip(lo, x, hi))
        if prob["nl"] is not None:
            conf_must &= all(_within(b[0], c, b[1]) for b, c in zip(prob["nl"], pt["c"]))
        conf_all = conf_must
        if L is not None:
            for row, a, b in zip(L["A"], L["lb"], L["ub"]):
                v = sum(c * t for c, t in zip(row, full))
                ok = _within(a, v, b)
                conf_all &= ok
                if all(c == 0 for c, f in zip(row, free) if not f):      # involves free variables only: must be retained
                    conf_must &= ok
        passed = True
        if obs["bounds"] is not None:
            passed &= all(_within(a, v, b) for a, v, b in zip(obs["bounds"][0], x, obs["bounds"][1]))
        if obs["which"] == "minimize":
            if len(pt["vals"]) != len(obs["cons"]):
                return {"clause": "constraint-callables", "detail": "number of values"}
            for (typ, _), v in zip(obs["cons"], pt["vals"]):
                passed &= (v[0] == 0) if typ == "eq" else (v[0] >= 0)
        else:
            if obs["lin"] is not None:
                for row, a, b in zip(obs["lin"]["A"], obs["lin"]["lb"], obs["lin"]["ub"]):
                    passed &= _within(a, sum(c * t for c, t in zip(row, x)), b)
            if obs["nl"] is not None:
                if len(pt["vals"]) != 1 or len(pt["vals"][0]) != len(obs["nl"]):
                    return {"clause": "constraint-callables", "detail": "NonlinearConstraint.fun shape"}
                passed &= all(_within(b[0], v, b[1]) for b, v in zip(obs["nl"], pt["vals"][0]))
            elif prob["nl"] is not None:
                passed &= True
        if (passed and not conf_must) or (conf_all and not passed):
            return {"clause": "feasible-set-equivalence",
                    "detail": {"point": k, "x": x, "handed_feasible": passed, "configured_feasible": conf_must,
                               "configured_incl_rows_with_fixed_variables": conf_all}}
    if obs["which"] != "minimize" and (prob["nl"] is not None) != (obs["nl"] is not None):
        return {"clause": "feasible-set-equivalence", "detail": "non-linear constraints not handed over"}
    # -- each normalised constraint's Jacobian is the derivative of its value (affine test constraints)
    pts = obs["points"]
    for a, b in zip(pts, pts[1:]):
        if a["jacs"]:
            if len(a["jacs"]) != len(a["vals"]):
                return {"clause": "jacobian-is-derivative-of-value", "detail": "a constraint without Jacobian"}
            dx = [q - p for p, q in zip(a["x"], b["x"])]
            for i, (g, v1, v2) in enumerate(zip(a["jacs"], a["vals"], b["vals"])):
                d = sum(s * t for s, t in zip(g, dx))
                if abs((v2[0] - v1[0]) - d) > 1e-6 * (1 + abs(d) + abs(v1[0]) + abs(v2[0])):
                    return {"clause": "jacobian-is-derivative-of-value",
                            "detail": {"row": i, "value_change": v2[0] - v1[0], "jac.dx": d}}
    # -- max_iterations reaches the back-end as its iteration limit
    if prob["max_iter"] is not None:
        keys = ["maxfun"] if m == "tnc" else ["maxiter"]
        got = [obs["options"].get(k) for k in keys]
        unknown = [s for s in obs["scipy"] if "Unknown solver options" in s and keys[0] in s.split(":", 1)[1].replace(",", " ").split()]
        if prob["max_iter"] not in got or unknown:
            return {"clause": "max_iterations_forwarded",
                    "detail": {"max_iterations": prob["max_iter"], "options_received": obs["options"], "scipy": unknown}}
    return None


def known_signature(case, obs, violation):
    """C08:max-iterations-dropped-without-options: site _parse_options, clause max_iterations_forwarded,
    feature: optimizer.options is not a dict (None or list) and max_iterations is set -- and the back-end
    received no options at all (what `return {}` does)."""
    if violation is None or violation.get("clause") != "max_iterations_forwarded":
        return None
    if in_known_region(case["prob"]) and not obs.get("rejected"):
        # `return {}`: nothing but the keys start() adds itself for vectorised differential_evolution
        if set(obs["options"]) <= {"updating", "workers"}:
            return KNOWN_ID
    return None


def nontrivial(case, obs):
    p = case["prob"]
    if obs.get("rejected"):
        return p["nl"] is not None or p["lin"] is not None or any(math.isfinite(v) for v in p["lower"] + p["upper"]) \
            or p["method"] == "differential_evolution"
    return bool(obs["cons"]) or obs["lin"] is not None or obs["nl"] is not None or obs["bounds"] is not None \
        or p["max_iter"] is not None


def features(case, obs):
    p = case["prob"]
    o = p["options"]
    feas = None
    return {"method": p["method"], "outcome": "rejected" if obs.get("rejected") else "accepted",
            "n_nonlinear": len(case["kinds"][0]), "n_linear": len(case["kinds"][1]),
            "masked": p["mask"] is not None,
            "options": "None" if o is None else "list" if "list" in o else "{}" if not o["dict"] else "dict",
            "max_iterations": p["max_iter"] is not None,
            "max_functions": "none" if p.get("max_functions") is None else "without max_iterations" if p["max_iter"] is None else
                             "smaller" if p["max_functions"] < p["max_iter"] else "larger" if p["max_functions"] > p["max_iter"] else "equal",
            "explicit_start_vector": p.get("start") is not None,
            "twin_outside_known_region": bool(case.get("twin")),
            "bound_pattern": _bound_pattern(p),
            "bounds": "none" if not any(math.isfinite(v) for v in p["lower"] + p["upper"]) else
                      "all-finite" if all(math.isfinite(v) for v in p["lower"] + p["upper"]) else "mixed"}


def _bound_pattern(p):
    lo = [math.isfinite(v) for v in p["lower"]]
    hi = [math.isfinite(v) for v in p["upper"]]
    free = [True] * len(lo) if p["mask"] is None else p["mask"]
    if not any(lo) and not any(hi):
        return "none"
    if not any(f and (a or b) for f, a, b in zip(free, lo, hi)):
        return "finite-on-fixed-variables-only"
    if all(lo) and all(hi):
        return "all-finite"
    if not any(hi):
        return "lower-only (all)" if all(lo) else "lower-only (some)"
    if not any(lo):
        return "upper-only (all)" if all(hi) else "upper-only (some)"
    return "mixed"


def shrink(case):
    p = case["prob"]
    for key, val in (("output_dir", None), ("types", None), ("tol", None), ("parallel", False), ("max_functions", None)):
        if p.get(key) not in (None, False):
            yield {**case, "prob": {**p, key: val}}
    if p["spelling"] != p["method"]:
        yield {**case, "prob": {**p, "spelling": p["method"]}}
    if p.get("start") is not None and p["mask"] is None:
        yield {**case, "prob": {**p, "x0": p["start"], "start": None}}
    if p["lin"] is not None:
        yield {**case, "prob": {**p, "lin": None}, "kinds": [case["kinds"][0], []]}
    if p["nl"] is not None:
        yield {**case, "prob": {**p, "nl": None}, "kinds": [[], case["kinds"][1]], "funcs": {**case["funcs"], "con": []}}
    if p["mask"] is None and any(math.isfinite(v) for v in p["lower"] + p["upper"]) and p["method"] != "differential_evolution":
        yield {**case, "prob": {**p, "lower": [-INF] * len(p["x0"]), "upper": [INF] * len(p["x0"])}}


def search(rng, case):
    """cases near a disagreeing one; with no case (a theorem or table fact broke): every supported method with
    every single constraint kind, so that a method wrongly added to a support table is exercised"""
    import ropt.plugins.optimizer.scipy as sp
    if case is not None:
        p = case["prob"]
        for _ in range(60):
            c = make_case(rng, p["method"], tuple(case["kinds"][0]), tuple(case["kinds"][1]))
            yield c
    for method in sorted(sp._SUPPORTED_METHODS):
        for nk, lk in (((), ()), (("eq",), ()), (("lo",), ()), ((), ("eq",)), ((), ("two",)), (("two",), ("up",))):
            for _ in range(6):
                yield make_case(rng, method, nk, lk)


RULE = ("exhaustive over constraint kinds {equality, lower-only, upper-only, two-sided, unbounded} for up to 2+2 (quick) / 3+3 "
        "(thorough) non-linear + linear constraints for slsqp, cobyla and differential_evolution, plus every other supported method "
        "with 0/1 constraints of each kind (rejections) and many unconstrained configurations; per case random dyadic bounds "
        "(mostly anchored at the first test point so that feasible and infeasible points both occur), coefficients, variable "
        "bounds with any mix of finite/infinite entries, masks (rows touching fixed variables and rows that survive), method "
        "spelling, options in {None, list, {}, dict with/without an iteration key}, max_iterations, max_functions (none / "
        "smaller / equal / larger than max_iterations; the back-end's iteration key must still carry max_iterations), output_dir, variable types, "
        "parallel, tolerance, and 4 test points; in about a third of the cases the optimizer is started from an explicit vector "
        "different from the configured initial values. A deterministic stream gives every method (also those without bound "
        "support) every finite/infinite pattern of variable bounds: all-lower-only, all-upper-only, a single lower / upper bound, "
        "lower and upper on different variables, all finite, finite on a fixed variable only, finite on the free variables only, "
        "masked and unmasked. Every case inside the region of the known finding (options not a dict, max_iterations set) is "
        "followed by a twin with max_iterations = None, so that the rest of that configuration is judged where nothing is "
        "reported as KNOWN-FINDING. Non-trivial = accepted with at least one constraint row / Bounds / max_iterations, "
        "or rejected with a constraint, bound or requirement present; distinct = distinct full case.")
ASSUMPTIONS = [
    "equality constraints are those with |upper - lower| < 1e-15 (the literal is re-extracted from the source); generators never produce bounds that differ by less than 1/4 unless equal",
    "a mixed equality + inequality family passed to a method whose table lists the family's inequality kind is passed on (SciPy handles it), not counted as dropped",
    "'retained' linear constraints are the rows whose coefficients on the fixed variables are all zero; rows involving a fixed variable are dropped by the code (the property speaks of retained rows only)",
    "what SciPy can handle is taken from SciPy's own 'cannot handle constraints/bounds' lists in scipy.optimize.minimize (re-extracted on every run) and, on every accepted case, from the warnings of a real scipy.optimize.minimize call with the captured method/bounds/constraint types/options",
    "test constraints are affine with few-bit dyadic data so that feasibility tests are exact in floating point",
    "the model's x0 is the vector start() is called with (the configured initial values unless the case names an explicit start vector); the fixed variables of a completed point take their values from it",
]
TRUSTED = [
    "the capturing driver standing in for scipy.optimize.minimize / differential_evolution and the probe call of the real scipy.optimize.minimize",
    "harness/props/C08.py:translate (fail-closed AST extraction of the two tolerances, the iteration-key rule and SciPy's capability lists)",
    "the oracle's raw constraint values / Jacobians at test points come from fresh EnsembleEvaluator runs (C01/C02 are separate properties)",
]

MANIFEST = {
    "level_text": ("Machine-checked Coq proof about the executable model of what the SciPy plug-in hands to SciPy (Model/ScipyProblem.v: "
                   "NormalizedConstraints, get_masked_linear_constraints, _initialize_bounds, _parse_options, "
                   "validate_supported_constraints, the keyword arguments of start()): END TO END, for every accepted problem "
                   "(well-formed bounds) a point passes the Bounds and the normalised rows / constraint objects handed over iff it "
                   "satisfies the configured bounds of the free variables, the retained linear rows on the completed vector and the "
                   "non-linear bounds (C08_handed_equiv_configured, stated on the definitions the checker evaluates); for every bound-pair kind the configured "
                   "bounds hold iff every normalised row is satisfied (= 0 / >= 0), each normalised Jacobian row is the derivative of "
                   "the normalised value with the same sign, masked linear rows are restated exactly on the free variables and the "
                   "dropped rows are exactly those touching a fixed variable, Bounds carry the free entries for any finite/infinite "
                   "mix, max_iterations is forwarded under the back-end's key for every method of the generated table and every form "
                   "of options, and every constraint kind accepted by the generated support tables is one SciPy itself handles; the "
                   "model is tied to the code on every run by an in-Coq correspondence over all kind combinations on the real plug-in."),
    "level_note": ("Trusted: Coq kernel + VM; the translators (method tables, tolerances, iteration-key rule, SciPy's own capability lists); "
                   "the capturing driver. Known finding C08:max-iterations-dropped-without-options (options not a dict) is re-confirmed "
                   "on every run and reported as KNOWN-FINDING; the model forwards the limit there; the signature requires that the back-end "
                   "received no option at all besides the two keys start() adds for vectorised differential_evolution, and every case "
                   "of the region has a twin outside it. Rows of linear constraints that "
                   "involve a fixed variable are dropped by the code (not absorbed into the bounds); the property text speaks of "
                   "retained rows only, so this is modelled as is and documented, not alarmed. Equality is the code's 1e-15 test; the "
                   "feasibility theorem assumes bounds are equal or differ by at least that tolerance. All theorems print 'Closed under "
                   "the global context'."),
    "technique": "Coq proof (per-row case analysis over extended reals lifted with Forall; algebra with ring/lra; finite generated-table facts by computation) + exhaustive-over-kinds in-Coq differential correspondence with the real plug-in",
    "design_ref": "DESIGN.md section 4, C08",
}
