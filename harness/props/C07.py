"""C07 -- values handed to the optimizer match the ensemble for any request order (SciPy plug-in cache).

Correspondence: `minimize` / `differential_evolution` in ropt.plugins.optimizer.scipy are replaced (in
this process only) by a scripted driver that receives the real `fun`, `jac`, constraint dicts /
NonlinearConstraint objects and calls them in an enumerated order at points of a small pool.  Everything
below is real: the EnsembleOptimizer callback, EnsembleEvaluator (with its own function cache), a
deterministic polynomial evaluator and an injected deterministic sampler (so gradients are a function of the
point).  The values returned, the optimizer-callback invocations and the user-evaluator calls are compared
inside Coq with Model/ScipyCache.v run on the same sequence with an oracle table computed by fresh,
cache-free evaluations at the pool points.

One case = one plug-in configuration + a block of request sequences (the oracle table is shared by the
block; the distinct returned values are interned).
"""
from __future__ import annotations

import itertools
import math

import coqio as cq

ID = "C07"
THEOREM_FILE = "Props/C07.v"
CHK_MODULE = "Check.Chk_C07"
CASE_TYPE = "Chk_C07.case"
CHECK_FN = "Chk_C07.check_case"
HEADER = "From Ropt Require Import Model.ScipyProblem Model.ScipyCache Gen.Generated.\nOpen Scope nat_scope."
SHARD_SIZE = 6
PARALLEL = True
CASE_TIMEOUT = 600
EXHAUSTIVE = {"quick": True, "thorough": True}
BLOCK = 350           # request sequences per case
# DISABLED stream (reported to the lead as an observation, not part of the check): when True the driver writes into
# every array a callable returns.  On /repo HEAD the callables hand out VIEWS of _cached_gradient and of the
# NormalizedConstraints arrays, so a later request for the same point returns the caller's garbage (third jac(x)
# after `g *= 0` is [0, 0]).  SciPy copies what it receives, so no run is affected; no entry in known_findings.json.
MUTATE_RETURNED = False

INF = float("inf")

# --------------------------------------------------------------------------------------------------
# shared with C08: building the real objects for a problem description
# --------------------------------------------------------------------------------------------------
R_WEIGHTS = [0.75, 0.25]
N_PERT = 3
MAGNITUDE = 1.0 / 64
_SAMPLES = [[[1, 0.5, -1, 0.5], [-0.5, 1, 0.5, -1], [0.5, -1, 1, 1]],
            [[-1, 0.5, 0.5, 1], [1, 1, -0.5, 0.5], [0.5, -0.5, -1, -0.5]]]


def poly(fn, x, r):
    """value of one deterministic 'ensemble member' function at the rows of x for realizations r"""
    import numpy as np
    x = np.asarray(x, dtype=float)
    lin = np.asarray(fn["lin"], dtype=float)
    quad = np.asarray(fn["quad"], dtype=float)
    return fn["c"] + fn["rshift"] * np.asarray(r, dtype=float) + x @ lin + (x * x) @ quad


def config_dict(prob, spec=False, split=False):
    v = {"initial_values": prob["x0"]}
    if any(math.isfinite(b) for b in prob["lower"]) or any(math.isfinite(b) for b in prob["upper"]):
        v["lower_bounds"] = prob["lower"]
        v["upper_bounds"] = prob["upper"]
    if prob.get("mask") is not None:
        v["mask"] = prob["mask"]
    if prob.get("types") is not None:
        v["types"] = prob["types"]
    opt = {"method": prob.get("spelling", prob["method"]), "speculative": spec, "split_evaluations": split,
           "parallel": bool(prob.get("parallel", False))}
    if prob.get("max_iter") is not None:
        opt["max_iterations"] = prob["max_iter"]
    if prob.get("max_functions") is not None:
        opt["max_functions"] = prob["max_functions"]
    if prob.get("tol") is not None:
        opt["tolerance"] = prob["tol"]
    o = prob.get("options")
    if o is not None:
        opt["options"] = o["dict"] if "dict" in o else o["list"]
    if prob.get("output_dir"):
        opt["output_dir"] = prob["output_dir"]
    real = {"weights": R_WEIGHTS}
    grad = {"number_of_perturbations": N_PERT, "perturbation_magnitudes": MAGNITUDE,
            "boundary_types": 1}                   # BoundaryType.NONE: perturbations are never reflected
    if prob.get("min_success") is not None:
        real["realization_min_success"] = prob["min_success"]
    if prob.get("pert_min_success") is not None:
        grad["perturbation_min_success"] = prob["pert_min_success"]
    d = {"variables": v,
         "realizations": real,
         "gradient": grad,
         "samplers": [{"method": "verif/fixed"}],
         "optimizer": opt}
    if prob.get("nl") is not None:
        d["nonlinear_constraints"] = {"lower_bounds": [b[0] for b in prob["nl"]],
                                      "upper_bounds": [b[1] for b in prob["nl"]]}
    if prob.get("lin") is not None:
        d["linear_constraints"] = {"coefficients": prob["lin"]["A"], "lower_bounds": prob["lin"]["lb"],
                                   "upper_bounds": prob["lin"]["ub"]}
    return d


class Env:
    """The real objects for one problem: config, plug-in manager with the deterministic sampler, evaluator."""

    def __init__(self, prob, funcs, spec=False, split=False):
        import numpy as np
        from ropt.config.enopt import EnOptConfig
        from ropt.evaluator import EvaluatorResult
        from ropt.plugins import PluginManager
        from ropt.plugins.sampler.base import Sampler, SamplerPlugin

        n_full = len(prob["x0"])
        samples = np.array(_SAMPLES, dtype=float)[:, :, :n_full]

        class FixedSampler(Sampler):
            def __init__(self, cfg, idx, mask, rng):  # noqa: ARG002
                self._mask = mask

            def generate_samples(self):
                s = samples.copy()
                if self._mask is not None:
                    s[..., ~self._mask] = 0.0
                return s

        class FixedPlugin(SamplerPlugin):
            def create(self, cfg, idx, mask, rng):
                return FixedSampler(cfg, idx, mask, rng)

            def is_supported(self, method):
                return method.lower() == "fixed"

        self.pm = PluginManager()
        self.pm.add_plugin("sampler", "verif", FixedPlugin())
        self.prob, self.funcs = prob, funcs
        self.cfg = EnOptConfig.model_validate(config_dict(prob, spec, split))
        self.log = []
        self.n_con = len(funcs["con"]) if prob.get("nl") is not None else 0

        def evaluator(variables, context):
            x = np.asarray(variables, dtype=float)
            r = np.asarray(context.realizations)
            pert = None if context.perturbations is None else np.asarray(context.perturbations).copy()
            obj = poly(funcs["obj"], x, r)[:, None]
            fail = prob.get("fail")
            if fail is not None and pert is not None:
                # some PERTURBED runs of one realization crash near one point; its unperturbed run is fine there
                near = np.max(np.abs(x - np.asarray(fail["center"], dtype=float)), axis=1) <= 2 * MAGNITUDE
                bad = near & (r == fail["realization"]) & np.isin(pert, fail["perts"])
                obj[bad, 0] = np.nan
            cons = None
            if self.n_con:
                cons = np.stack([poly(f, x, r) for f in funcs["con"][: self.n_con]], axis=1)
            self.log.append(("ev", x.copy(), pert))
            return EvaluatorResult(objectives=obj, constraints=cons)

        self.evaluator = evaluator
        m = prob.get("mask")
        self.free = np.ones(n_full, dtype=bool) if m is None else np.array(m, dtype=bool)
        # the vector handed to EnsembleOptimizer.start(): the configured initial values unless the case
        # names an explicit start vector (fixed variables then take THEIR values from it)
        self.x0 = np.array(prob["start"] if prob.get("start") is not None else prob["x0"], dtype=float)

    def complete(self, xfree, start=None):
        import numpy as np
        full = (self.x0 if start is None else np.array(start, dtype=float)).copy()
        full[self.free] = xfree
        return full

    def new_evaluator(self):
        from ropt.ensemble_evaluator import EnsembleEvaluator
        return EnsembleEvaluator(self.cfg, None, self.evaluator, self.pm)

    def oracle(self, xfree, start=None):
        """ensemble values at a point from a fresh, cache-free EnsembleEvaluator: (F, G) as the optimizer
        callback would hand them over (free variables only)"""
        import numpy as np
        n = len(self.log)
        full = self.complete(np.asarray(xfree, dtype=float), start)
        # the reference VALUES are the functions-only ensemble values (what a request for the value alone gives);
        # the reference gradients come from a combined evaluation on another fresh evaluator
        (fr,) = self.new_evaluator().calculate(full, compute_functions=True, compute_gradients=False)
        _, gr = self.new_evaluator().calculate(full, compute_functions=True, compute_gradients=True)
        del self.log[n:]
        cons = [] if fr.functions.constraints is None else [float(v) for v in fr.functions.constraints]
        jac = [] if gr.gradients.constraints is None else \
            [[float(v) for v in row[self.free]] for row in gr.gradients.constraints]
        return ([float(fr.functions.weighted_objective), cons],
                [[float(v) for v in gr.gradients.weighted_objective[self.free]], jac])

    def make_optimizer(self):
        """the real EnsembleOptimizer (-> SciPyOptimizer) on a fresh EnsembleEvaluator, with a logging callback"""
        import numpy as np
        from ropt.optimization import EnsembleOptimizer

        env = self

        class Recording(EnsembleOptimizer):
            def _optimizer_callback(self, variables, *, return_functions, return_gradients):
                env.log.append(("cb", np.array(variables, dtype=float, copy=True), bool(return_functions),
                                bool(return_gradients)))
                return super()._optimizer_callback(variables, return_functions=return_functions,
                                                   return_gradients=return_gradients)

        return Recording(self.cfg, self.new_evaluator(), self.pm)

    def start(self, driver, opt=None, start=None):
        """start the real optimizer (a fresh one unless `opt` is given: several start() calls on ONE object) with
        `driver` in place of scipy.optimize.minimize / differential_evolution; returns whatever the driver returned"""
        import ropt.plugins.optimizer.scipy as sp

        out = {}

        def fake_minimize(**kw):
            out["result"] = driver("minimize", kw)

        def fake_de(**kw):
            out["result"] = driver("differential_evolution", kw)

        old = sp.minimize, sp.differential_evolution
        sp.minimize, sp.differential_evolution = fake_minimize, fake_de
        try:
            if opt is None:
                opt = self.make_optimizer()
            import numpy as np
            out["exit"] = opt.start(self.x0.copy() if start is None else np.array(start, dtype=float)).name
        finally:
            sp.minimize, sp.differential_evolution = old
        return out


# --------------------------------------------------------------------------------------------------
# generators
# --------------------------------------------------------------------------------------------------
def _dy(rng, lo, hi, den=4):
    return rng.randint(lo * den, hi * den) / den


def _funcs(rng, n_full):
    def one(quadratic):
        return {"c": _dy(rng, -2, 2), "rshift": _dy(rng, -1, 1),
                "lin": [_dy(rng, -2, 2) for _ in range(n_full)],
                "quad": [(_dy(rng, 0, 1, 2) if quadratic else 0.0) for _ in range(n_full)]}
    return {"obj": one(True), "con": [one(False), one(True)]}


def _pool(rng, n):
    base = [[1.0, 2.0, -0.5, 0.25], [3.0, -1.0, 1.5, 2.0], [-1.0, 0.5, 2.5, -2.0]]
    return [[v + _dy(rng, 0, 1, 8) for v in p[:n]] for p in base]


GRAD_FREE_PLAIN = ["nelder-mead", "powell"]
GRAD_PLAIN = ["l-bfgs-b", "bfgs", "cg", "newton-cg", "tnc"]


def _problem(method, nl, lin, n_full=2, mask=None, parallel=False, spelling=None):
    lower = [-INF] * n_full
    upper = [INF] * n_full
    if method == "differential_evolution":
        lower, upper = [-8.0] * n_full, [8.0] * n_full
    nfree = n_full if mask is None else sum(mask)
    prob = {"method": method, "mask": mask, "x0": [0.0, 0.5, -0.25, 1.0][:n_full], "lower": lower, "upper": upper,
            "nl": None, "lin": None, "options": None, "max_iter": None, "parallel": parallel, "tol": None}
    if spelling is not None:
        prob["spelling"] = spelling
    if mask is not None:
        # explicit start vector: the fixed variables take their values from it, not from the configured initial values
        prob["start"] = [v if m else v + 1.0 for v, m in zip(prob["x0"], mask)]
    if nl:
        prob["nl"] = [[1.0, INF], [-INF, 2.0]] if method != "slsqp" else [[1.0, INF], [-1.0, 2.0]]
    if lin:
        row = [1.0, -1.0, 0.5, 2.0][:n_full]
        row2 = [0.5, 2.0, 1.0, -1.0][:n_full]
        if mask is not None:
            row = [a if m else 0.0 for a, m in zip(row, mask)]      # survives the mask
        prob["lin"] = {"A": [row, row2], "lb": [0.0, -INF], "ub": [4.0, 3.0]}
        if method == "slsqp":
            prob["lin"]["lb"][1] = 3.0                                # an equality row
    prob["_nfree"] = nfree
    return prob


def _letters(kinds, pts):
    out = []
    for k in kinds:
        for p in pts:
            out.append(list(k) + [p])
    return out


def _seqs(letters, n):
    for length in range(1, n + 1):
        yield from (list(s) for s in itertools.product(letters, repeat=length))


def _n_rows(prob):
    """number of normalised rows (for choosing constraint indices); mirrors nothing: only picks indices"""
    n = 0
    for lo, hi in (prob["nl"] or []):
        n += 1 if lo == hi else int(math.isfinite(lo)) + int(math.isfinite(hi))
    if prob["lin"] is not None:
        A = prob["lin"]["A"]
        for a, lo, hi in zip(A, prob["lin"]["lb"], prob["lin"]["ub"]):
            if prob["mask"] is not None and any(c != 0 for c, m in zip(a, prob["mask"]) if not m):
                continue
            n += 1 if lo == hi else int(math.isfinite(lo)) + int(math.isfinite(hi))
    return n


FAMILIES = ((False, False), (True, False), (False, True), (True, True))
MASK3 = [True, False, True]


def _configs(tier):
    """(problem, kinds of requests, points, short): `short` configurations get the sequences up to length 2 only"""
    S = [["s", i] for i in range(3)]
    B = [["s", 0], ["s", 1], ["b", [0]], ["b", [0, 1]], ["b", [1, 0]], ["b", [0, 1, 2]], ["b", []]]
    out = []

    def dict_kinds(p, grad):
        kinds = [["obj"]] + ([["grad"]] if grad else [])
        if p["nl"] is not None or p["lin"] is not None:
            ks = sorted({0, _n_rows(p) - 1})
            kinds += [["con", k] for k in ks] + ([["jac", k] for k in ks] if grad else [])
        return kinds

    # method spellings as a user may configure them (the plug-in normalises: prefix removed, lower-cased, default)
    sl = {(False, False): "scipy/default", (True, False): "SLSQP", (False, True): None, (True, True): "scipy/SLSQP"}
    co = {(False, False): "COBYLA", (True, False): None, (False, True): "scipy/Cobyla", (True, True): "scipy/cobyla"}
    for fam in FAMILIES:
        p = _problem("slsqp", *fam, spelling=sl[fam])
        out.append((p, dict_kinds(p, True), S, False))
        p = _problem("cobyla", *fam, spelling=co[fam])
        out.append((p, dict_kinds(p, False), S, False))
    # masked variants: three variables, the middle one fixed (and started from an explicit vector)
    p = _problem("slsqp", True, True, n_full=3, mask=MASK3)
    out.append((p, dict_kinds(p, True), S, False))
    p = _problem("slsqp", False, True, n_full=3, mask=MASK3)        # linear only, one row dropped by the mask
    out.append((p, dict_kinds(p, True), S, True))
    p = _problem("cobyla", True, True, n_full=3, mask=MASK3)
    out.append((p, dict_kinds(p, False), S, True))
    for m, sp in zip(GRAD_PLAIN, (None, "BFGS", "scipy/cg", "Newton-CG", "scipy/TNC")):
        out.append((_problem(m, False, False, spelling=sp), [["obj"], ["grad"]], S, False))
    for m, sp in zip(GRAD_FREE_PLAIN, ("scipy/Nelder-Mead", "Powell")):
        out.append((_problem(m, False, False, spelling=sp), [["obj"]], S, False))
    for fam in FAMILIES:
        nl, lin = fam
        kinds = [["obj"]] + ([["conall"], ["jacall"]] if nl else [])
        p = _problem("differential_evolution", nl, lin, spelling="scipy/differential_evolution" if lin else None)
        out.append((p, kinds, S, False))
        if fam == (False, True):
            continue            # vectorised + linear only: same callables as the unconstrained problem
        p = _problem("differential_evolution", nl, lin, parallel=True,
                     spelling="Differential_Evolution" if nl and not lin else None)
        out.append((p, kinds, B, False))
    p = _problem("differential_evolution", True, False, n_full=3, mask=MASK3, parallel=True)
    out.append((p, [["obj"], ["conall"], ["jacall"]], B, True))
    # failures are tolerated (realization_min_success 1 of 2) and some perturbed runs of realization 1 crash near pool
    # point 1, its unperturbed run does not: the realization drops out of the gradient there but not out of the value
    for pms, perts in ((None, [0]), (2, [0, 2]), (2, [1])):      # default = all must succeed | 2 of 3: fails | tolerated
        for method, nl in (("slsqp", True), ("l-bfgs-b", False)):
            p = _problem(method, nl, False)
            p.update({"min_success": 1, "pert_min_success": pms,
                      "fail": {"point": 1, "realization": 1, "perts": perts, "center": None}})
            out.append((p, dict_kinds(p, True), S, True))
    # a large convergence tolerance is configured and pool point 3 is close to pool point 0 (3/512 per coordinate:
    # more than 1e-3(1+|x|), less than the tolerance): the tolerance is the algorithm's business, not the cache's
    N = [["s", 0], ["s", 3], ["s", 1]]
    for method, fam, grad in (("slsqp", (True, True), True), ("l-bfgs-b", (False, False), True), ("cobyla", (True, False), False)):
        p = _problem(method, *fam)
        p.update({"tol": 1.0 / 64, "_near": True})
        out.append((p, dict_kinds(p, grad), N, True))
    return out


def _all_rows(prob, kinds, pts=(0, 1)):
    """every normalised row (not only the first and the last one), asked first or after a request of another kind"""
    n = _n_rows(prob)
    has_jac = any(k[0] == "jac" for k in kinds)
    firsts = [None, ["obj", ["s", 0]], ["con", 0, ["s", 0]]]
    if has_jac:
        firsts += [["grad", ["s", 0]], ["jac", 0, ["s", 0]]]
    out = []
    for first in firsts:
        for k in range(n):
            for kind in (("con", "jac") if has_jac else ("con",)):
                for pt in pts:
                    out.append(([first] if first else []) + [[kind, k, ["s", pt]]])
    return out


def _shift(op, n):
    pt = op[-1]
    return op[:-1] + [["s", pt[1] + n] if pt[0] == "s" else ["b", [i + n for i in pt[1]]]]


NEAR = 3.0 / 512
CHAIN = 100           # sequences run back to back on one plug-in object (one start() each)


def gen_cases(tier, rng):
    funcs_by_n = {n: _funcs(rng, n) for n in (2, 3)}
    pool_by_n = {n: _pool(rng, n) for n in (2, 3)}
    for prob, kinds, pts, short in _configs(tier):
        n_full = len(prob["x0"])
        pool = pool_by_n[prob["_nfree"]]
        if prob.get("_near"):
            pool = pool + [[v + NEAR for v in pool[0]]]
        funcs = funcs_by_n[n_full]
        nk, npt = len(kinds), len(pts)
        # exhaustive: all sequences up to length 2 (3 when the alphabet is small) over all points, and the
        # longer ones over a reduced alphabet (first two points)
        if tier == "quick":
            full_len = 3 if nk * npt <= 9 else 2
            red_len = 3
            red_pts = pts[:2] if nk * npt > 9 else pts
        else:
            full_len = 4 if nk * npt <= 9 else 3
            red_len = 4
            red_pts = pts[:2] if nk * npt > 9 else pts
        if len(pts) > 3:      # vectorised DE: shapes matter more than indices
            red_pts = [pts[0], pts[2], pts[3], pts[6]] if nk > 1 else pts
        if short:
            full_len, red_len = (2, 2) if tier == "quick" else (3, 3)
        seqs = list(_seqs(_letters(kinds, pts), full_len))
        seen = {cq_key(s) for s in seqs}
        for s in _seqs(_letters(kinds, red_pts), red_len):
            if len(s) > full_len and cq_key(s) not in seen:
                seqs.append(s)
        if any(k[0] == "con" for k in kinds):
            for s in _all_rows(prob, kinds, (0, 3) if prob.get("_near") else (0, 1)):
                if cq_key(s) not in seen:
                    seen.add(cq_key(s))
                    seqs.append(s)
        short_seqs = [s for s in seqs if len(s) <= 2]
        pub = {k2: v for k2, v in prob.items() if not k2.startswith("_")}
        if pub.get("fail") is not None:
            pub["fail"] = {**pub["fail"], "center": pool[pub["fail"]["point"]]}
            # the realizations must differ, or dropping one would not change the value
            funcs = {"obj": {**funcs["obj"], "rshift": funcs["obj"]["rshift"] or 0.5},
                     "con": [{**f, "rshift": f["rshift"] or -0.75} for f in funcs["con"]]}
        for spec in (False, True):
            for split in (False, True):
                for k in range(0, len(seqs), BLOCK):
                    yield {"prob": pub, "funcs": funcs, "pool": pool, "spec": spec, "split": split, "chain": False,
                           "seqs": seqs[k:k + BLOCK]}
                # the same plug-in object (and EnsembleEvaluator) started again and again
                n_chain = CHAIN if tier == "quick" else 3 * CHAIN
                chain = [rng.choice(short_seqs) for _ in range(n_chain // 2)] + \
                        [rng.choice(seqs) for _ in range(n_chain - n_chain // 2)]
                case = {"prob": pub, "funcs": funcs, "pool": pool, "spec": spec, "split": split, "chain": True,
                        "seqs": chain}
                if prob["mask"] is not None:
                    # every other run starts from a second explicit vector (other values of the fixed variables):
                    # the same free coordinates are then a DIFFERENT point -- pool entries n.. are the pool
                    # points completed with the second start vector
                    n = len(pool)
                    case["pool"] = pool + pool
                    case["pool_start"] = [0] * n + [1] * n
                    case["starts"] = [prob["start"], [v if m else v - 0.5 for v, m in zip(prob["start"], prob["mask"])]]
                    case["seqs"] = [s if j % 2 == 0 else [_shift(o, n) for o in s] for j, s in enumerate(chain)]
                    # ... and the FREE part of a run's start vector is the point the previous run asked for last
                    # (a restart "where we stopped", with other values of the fixed variables)
                    case["restart_at_last_point"] = True
                yield case


def cq_key(s):
    return repr(s)


# --------------------------------------------------------------------------------------------------
# running the real code
# --------------------------------------------------------------------------------------------------
def _pt_of(env, pool_full, arr, parallel, cands=None):
    """pool index structure of an array handed to the optimizer callback (already transposed for parallel);
    `cands`: the pool indices that belong to the current run (its start vector)"""
    import numpy as np
    arr = np.asarray(arr, dtype=float)

    def idx(v):
        for i, p in enumerate(pool_full):
            if (cands is None or i in cands) and v.shape == p.shape and np.allclose(v, p, rtol=0, atol=1e-12):
                return i
        return 99
    if arr.ndim == 1:
        return ["s", idx(arr)]
    return ["b", [idx(arr[k]) for k in range(arr.shape[0])]]


def _nearest(pool_full, v, free=None):
    """the pool point of which `v` is a perturbation: v = p + MAGNITUDE * (a row of the injected samples, zero on
    fixed variables); exact, so that pool points closer together than a perturbation stay distinguishable"""
    import numpy as np
    S = np.array(_SAMPLES, dtype=float)[:, :, :len(v)].reshape(-1, len(v))
    if free is not None:
        S = S * np.asarray(free, dtype=float)
    D = (v[None, :] - np.asarray(pool_full)) / MAGNITUDE                     # (points, variables)
    hit = (np.abs(D[:, None, :] - S[None, :, :]) <= 1e-6).all(axis=2).any(axis=1)
    hits = np.flatnonzero(hit)
    return int(hits[0]) if len(hits) == 1 else 99


def _exact(pool_full, v):
    import numpy as np
    for i, p in enumerate(pool_full):
        if np.array_equal(v, p):
            return i
    return 99


def _ev_kind(env, pool_full, x, pert, inv_pt):
    """classify one call of the user's evaluator"""
    import numpy as np
    nr = len(R_WEIGHTS)
    if pert is None:
        if x.shape[0] % nr or not all(np.array_equal(x[k], x[(k // nr) * nr]) for k in range(x.shape[0])):
            return ["bad"]
        ids = [_exact(pool_full, v) for v in x[::nr]]
        pt = ["s", ids[0]] if inv_pt[0] == "s" and len(ids) == 1 else ["b", ids]
        return ["F", pt]
    if (pert >= 0).all():
        if x.shape[0] != nr * N_PERT:
            return ["bad"]
        ids = {_nearest(pool_full, v, env.free) for v in x}
        return ["G", ids.pop()] if len(ids) == 1 else ["bad"]
    unp = x[pert < 0]
    if unp.shape[0] != nr or x.shape[0] != nr * (1 + N_PERT) or not all(np.array_equal(v, unp[0]) for v in unp):
        return ["bad"]
    i = _exact(pool_full, unp[0])
    if i == 99 or {_nearest(pool_full, v, env.free) for v in x[pert >= 0]} != {i}:
        return ["bad"]
    return ["FG", i]


def _ret(v):
    import numpy as np
    a = np.asarray(v, dtype=float)
    if a.ndim <= 1:
        return ["v", [float(t) for t in np.ravel(a)]]
    return ["m", [[float(t) for t in row] for row in a]]


def run_impl(case):
    import warnings

    import numpy as np
    warnings.simplefilter("ignore")
    prob = case["prob"]
    env = Env(prob, case["funcs"], case["spec"], case["split"])
    pool = [np.array(p, dtype=float) for p in case["pool"]]
    starts = case.get("starts") or [None]
    pool_start = case.get("pool_start") or [0] * len(pool)
    pool_full = [env.complete(p, starts[k]) for p, k in zip(pool, pool_start)]
    table = [env.oracle(p, starts[k]) for p, k in zip(pool, pool_start)]
    parallel = bool(prob.get("parallel")) and prob["method"] == "differential_evolution"
    nfree = int(env.free.sum())
    runs = []
    structure = {}
    # like SciPy's algorithms the driver keeps ONE array per shape and overwrites it in place with the next
    # point: a cache that keeps a reference to the caller's array instead of a copy sees "the same point"
    bufs = {}

    def arr_of(pt):
        if pt[0] == "s":
            val = pool[pt[1]]
        elif not pt[1]:
            val = np.zeros((nfree, 0))
        else:
            val = np.stack([pool[i] for i in pt[1]]).T     # (N, S) as scipy's vectorised DE passes it
        buf = bufs.setdefault(val.shape, np.empty(val.shape))
        buf[...] = val
        return buf

    def start_of(seq):
        for op in seq:
            pt = op[-1]
            ids = [pt[1]] if pt[0] == "s" else pt[1]
            if ids:
                return pool_start[ids[0]]
        return 0

    def start_vector(k_start, prev):
        """the vector handed to start(): the run's explicit start vector; with `restart_at_last_point` its free
        entries are the free coordinates of the single point the previous run requested last"""
        base = starts[k_start]
        if not case.get("restart_at_last_point") or not prev or prev[-1][-1][0] != "s":
            return base
        full = np.array(base if base is not None else prob["x0"], dtype=float)
        full[env.free] = pool[prev[-1][-1][1]]
        return full

    opt = env.make_optimizer() if case.get("chain") else None
    prev_seq = None
    for seq in case["seqs"]:
        k_start = start_of(seq)
        cands = [i for i, k in enumerate(pool_start) if k == k_start]      # the pool points of this run

        def driver(which, kw, seq=seq, cands=cands):
            cons = kw.get("constraints") or []
            nlc = [c for c in cons if hasattr(c, "fun") and not isinstance(c, dict)]
            structure.setdefault("which", which)
            structure.setdefault("jac", callable(kw.get("jac")))
            structure.setdefault("cons", [[c["type"], "jac" in c] for c in cons if isinstance(c, dict)])
            out = []
            for op in seq:
                kind, pt = op[0], op[-1]
                x = arr_of(pt)
                n0 = len(env.log)
                try:
                    if kind == "obj":
                        raw = (kw["fun"] if which == "minimize" else kw["func"])(x)
                    elif kind == "grad":
                        raw = kw["jac"](x)
                    elif kind == "con":
                        raw = cons[op[1]]["fun"](x)
                    elif kind == "jac":
                        raw = cons[op[1]]["jac"](x)
                    elif kind == "conall":
                        raw = nlc[0].fun(x)
                    elif kind == "jacall":
                        raw = nlc[0].jac(x)
                    else:
                        raise ValueError(kind)
                    r = _ret(raw)
                    if MUTATE_RETURNED and isinstance(raw, np.ndarray) and raw.flags.writeable and raw.ndim:
                        raw[...] = raw + 1000.0      # the caller writes into what it received
                except (AssertionError, IndexError, KeyError, TypeError, ValueError) as e:
                    r = ["err", type(e).__name__]
                invs = []
                for entry in env.log[n0:]:
                    if entry[0] == "cb":
                        invs.append([_pt_of(env, pool, entry[1], parallel, cands), entry[2], entry[3], []])
                    elif invs:
                        invs[-1][3].append(_ev_kind(env, pool_full, entry[1], entry[2], invs[-1][0]))
                    else:
                        invs.append([["s", 98], False, False, [["bad"]]])
                out.append({"ret": r, "inv": invs})
            return out
        env.log.clear()
        res = env.start(driver, opt, start_vector(k_start, prev_seq))
        runs.append(res.get("result"))
        prev_seq = seq
    return {"table": table, "runs": runs, "structure": structure}


# --------------------------------------------------------------------------------------------------
# Gallina printing
# --------------------------------------------------------------------------------------------------
def er_pair(lo, hi):
    return f"({cq.er(lo)}, {cq.er(hi)})"


def problem_term(prob):
    """Model.ScipyProblem.problem"""
    mask = "None" if prob.get("mask") is None else f"(Some {cq.bs(prob['mask'])})"
    nl = "None" if prob.get("nl") is None else "(Some " + cq.lst(er_pair(a, b) for a, b in prob["nl"]) + ")"
    if prob.get("lin") is None:
        lin = "None"
    else:
        L = prob["lin"]
        lin = f"(Some (Build_lincons {cq.qmat(L['A'])} {cq.ers(L['lb'])} {cq.ers(L['ub'])}))"
    o = prob.get("options")
    if o is None:
        opts = "NoneOpt"
    elif "list" in o:
        opts = "(ListOpt " + cq.lst(cq.s(t) for t in o["list"]) + ")"
    else:
        opts = "(DictOpt " + cq.lst(f"({cq.s(k)}, {oval_term(v)})" for k, v in o["dict"].items()) + ")"
    mi = "None" if prob.get("max_iter") is None else f"(Some {cq.z(prob['max_iter'])})"
    types = "None" if prob.get("types") is None else "(Some " + cq.bs([t == 2 for t in prob["types"]]) + ")"
    tol = "None" if prob.get("tol") is None else f"(Some {cq.q(prob['tol'])})"
    x0 = prob["start"] if prob.get("start") is not None else prob["x0"]      # what start() is called with
    return (f"(Build_problem {cq.s(prob['method'])} {mask} {cq.qs(x0)} {cq.ers(prob['lower'])} "
            f"{cq.ers(prob['upper'])} {nl} {lin} {opts} {mi} {cq.b(bool(prob.get('output_dir')))} {types} "
            f"{cq.b(bool(prob.get('parallel')))} {tol})")


def oval_term(v):
    if isinstance(v, bool):
        return f"(OBool {cq.b(v)})"
    if isinstance(v, int):
        return f"(OInt {cq.z(v)})"
    if isinstance(v, str):
        return f"(OStr {cq.s(v)})"
    if isinstance(v, (list, tuple)) and all(isinstance(t, bool) for t in v):
        return f"(OBools {cq.bs(v)})"
    return f"(OStr {cq.s('?' + type(v).__name__)})"


def _pt_term(pt):
    if pt[0] == "s":
        return f"(S_ {int(pt[1])})"
    return "(B_ " + cq.lst(str(int(i)) for i in pt[1]) + ")"


def _op_term(op):
    k = op[0]
    if k == "obj":
        return f"(Obj {_pt_term(op[1])})"
    if k == "grad":
        return f"(Grad {_pt_term(op[1])})"
    if k == "con":
        return f"(Con {int(op[1])} {_pt_term(op[2])})"
    if k == "jac":
        return f"(Jac {int(op[1])} {_pt_term(op[2])})"
    if k == "conall":
        return f"(ConAll {_pt_term(op[1])})"
    return f"(JacAll {_pt_term(op[1])})"


def _ev_term(e):
    if e[0] == "F":
        return f"(EvF {_pt_term(e[1])})"
    if e[0] == "G":
        return f"(EvG {int(e[1])})"
    if e[0] == "FG":
        return f"(EvFG {int(e[1])})"
    return "EvBad"


def _ret_term(r):
    if r[0] == "v":
        return f"(RVec {cq.qs(r[1])})"
    if r[0] == "m":
        return f"(RMat {cq.qmat(r[1])})"
    return "RErr"


def _finite(r):
    if r[0] == "v":
        return all(math.isfinite(t) for t in r[1])
    if r[0] == "m":
        return all(math.isfinite(t) for row in r[1] for t in row)
    return True


def _calls_terms(invs):
    out = []
    for pt, rf, rg, evs in invs:
        if len(evs) == 0:
            evs = [["bad"]]
        for e in evs:          # more than one evaluator call per invocation shows up as an extra pair
            out.append(f"(I_ {_pt_term(pt)} {cq.b(rf)} {cq.b(rg)} {_ev_term(e)})")
    return cq.lst(out)


def coq_case(case, obs):
    table = obs["table"]
    F = cq.lst(f"({cq.q(f[0])}, {cq.qs(f[1])})" for f, _ in table)
    G = cq.lst(f"({cq.qs(g[0])}, {cq.qmat(g[1])})" for _, g in table)
    X = cq.lst(cq.qs(p) for p in case["pool"])
    vals, index = [], {}
    items, item_index = [], {}
    seqs = []
    big = 1.0
    for f, g in table:
        big = max([big, abs(f[0])] + [abs(t) for t in f[1]] + [abs(t) for t in g[0]] + [abs(t) for row in g[1] for t in row])
    for seq, run in zip(case["seqs"], obs["runs"]):
        ids = []
        if len(run) != len(seq):
            raise ValueError("the driver did not issue every request of the sequence")
        for op, res in zip(seq, run):
            r = res["ret"] if _finite(res["ret"]) else ["err", "nonfinite"]
            key = repr(r)
            if key not in index:
                index[key] = len(vals)
                vals.append(_ret_term(r))
            term = f"({_op_term(op)}, {index[key]}, {_calls_terms(res['inv'])})"
            if term not in item_index:
                item_index[term] = len(items)
                items.append(term)
            ids.append(str(item_index[term]))
        seqs.append(cq.lst(ids))
    return (f"(Build_case {problem_term(case['prob'])} {cq.b(case['spec'])} {cq.b(case['split'])} {F} {G} {X} "
            f"{cq.q(big)} {cq.lst(vals)} {cq.lst(items)} {cq.b(bool(case.get('chain')))} {cq.lst(seqs)})")


# --------------------------------------------------------------------------------------------------
# the property evaluated directly on the observation (independent of the model)
# --------------------------------------------------------------------------------------------------
def _close(a, b, scale):
    return abs(a - b) <= 1e-12 * scale + 1e-9 * abs(b)


def _vec_close(a, b, scale):
    return len(a) == len(b) and all(_close(x, y, scale) for x, y in zip(a, b))


def _norm_rows(prob):
    """(index, rhs, flip, is_eq) rows from the configured bounds, written from the property text:
    a lower bound l gives c - l >= 0, an upper bound u gives u - c >= 0, l = u gives c - l = 0."""
    pairs = list(prob["nl"] or [])
    kept = []
    if prob["lin"] is not None:
        L = prob["lin"]
        for a, lo, hi in zip(L["A"], L["lb"], L["ub"]):
            if prob["mask"] is not None and any(c != 0 for c, m in zip(a, prob["mask"]) if not m):
                continue
            kept.append([c for c, m in zip(a, prob["mask"] or [True] * len(a)) if m])
            pairs.append([lo, hi])
    rows = []
    for i, (lo, hi) in enumerate(pairs):
        if lo == hi:
            rows.append((i, lo, 1.0))
        else:
            if math.isfinite(lo):
                rows.append((i, lo, 1.0))
            if math.isfinite(hi):
                rows.append((i, hi, -1.0))
    return rows, kept


def oracle(case, obs):
    import ropt.plugins.optimizer.scipy as sp
    prob = case["prob"]
    nograd = prob["method"] in sp._NO_GRADIENT
    table = obs["table"]
    rows, kept = _norm_rows(prob)
    scale = 1.0
    for f, g in table:
        scale = max([scale, abs(f[0])] + [abs(t) for t in f[1]] + [abs(t) for t in g[0]] + [abs(t) for r_ in g[1] for t in r_])
    if len(obs["runs"]) != len(case["seqs"]) or any(r is None for r in obs["runs"]):
        return {"clause": "driver-did-not-run", "detail": obs.get("structure")}
    for si, (seq, run) in enumerate(zip(case["seqs"], obs["runs"])):
        cur = None
        known_f = known_g = False
        for oi, (op, res) in enumerate(zip(seq, run)):
            kind, pt = op[0], op[-1]
            where = {"sequence": si, "request": oi, "ops": seq}
            ret = res["ret"]
            # ---- the value is the ensemble value at the same point
            exp = None
            if pt[0] == "s":
                f, g = table[pt[1]]
                lin_vals = [sum(c * x for c, x in zip(a, case["pool"][pt[1]])) for a in kept]
                raw = (list(f[1]) if prob["nl"] is not None else []) + lin_vals
                rawj = (list(g[1]) if prob["nl"] is not None else []) + kept
                if kind == "obj":
                    exp = ["v", [f[0]]]
                elif kind == "grad" and not nograd:
                    exp = ["v", g[0]]
                elif kind == "con":
                    i, rhs, sign = rows[op[1]]
                    exp = ["v", [sign * (raw[i] - rhs)]]
                elif kind == "jac":
                    i, rhs, sign = rows[op[1]]
                    exp = ["v", [sign * t for t in rawj[i]]]
                elif kind == "conall":
                    exp = ["v", list(f[1])]
            elif kind == "obj":
                exp = ["v", [table[i][0][0] for i in pt[1]]]
            elif kind == "conall":
                exp = ["v", []] if not pt[1] else ["m", [[table[i][0][1][k] for i in pt[1]] for k in range(len(table[0][0][1]))]]
            if exp is not None:
                ok = ret[0] == exp[0] and (
                    _vec_close(ret[1], exp[1], scale) if exp[0] == "v" else
                    (len(ret[1]) == len(exp[1]) and all(_vec_close(a, b, scale) for a, b in zip(ret[1], exp[1]))))
                if not ok:
                    return {"clause": "value-not-the-ensemble-value-at-this-point", "detail": {**where, "returned": ret, "expected": exp}}
            # ---- evaluations caused
            if pt != cur:          # any request at another point (also an empty batch) ends "the current point"
                cur, known_f, known_g = pt, False, False
            for ipt, rf, rg, evs in res["inv"]:
                if ipt != pt:
                    return {"clause": "evaluation-at-another-point", "detail": {**where, "invocation": [ipt, rf, rg]}}
                if nograd and rg:
                    return {"clause": "gradient-evaluated-for-gradient-free-method", "detail": {**where, "invocation": [ipt, rf, rg]}}
                if case["split"] and rf and rg:
                    return {"clause": "split-evaluations-computed-both", "detail": {**where, "invocation": [ipt, rf, rg]}}
                if (rf and known_f) or (rg and known_g):
                    return {"clause": "recomputed-for-the-current-point", "detail": {**where, "invocation": [ipt, rf, rg]}}
                known_f, known_g = known_f or rf, known_g or rg
                if len(evs) != 1 or evs[0][0] == "bad":
                    return {"clause": "evaluator-calls-malformed", "detail": {**where, "evaluator": evs}}
                if evs[0][0] in ("FG", "G") and not rg:
                    return {"clause": "perturbations-evaluated-without-gradient-request", "detail": {**where, "evaluator": evs}}
                if nograd and evs[0][0] != "F":
                    return {"clause": "gradient-evaluated-for-gradient-free-method", "detail": {**where, "evaluator": evs}}
    return None


def nontrivial(case, obs):
    return any(len(s) >= 2 and len({repr(o[-1]) for o in s}) >= 2 for s in case["seqs"])


def features(case, obs):
    p = case["prob"]
    cons = "+".join(k for k in ("nl", "lin") if p[k] is not None) or "none"
    n = sum(len(s) for s in case["seqs"])
    return {"method": p["method"] + ("/vectorized" if p.get("parallel") else ""), "constraints": cons,
            "speculative": case["spec"], "split": case["split"], "masked": p["mask"] is not None,
            "one_object_started_repeatedly": bool(case.get("chain")),
            "method_spelling": "as-is" if p.get("spelling") in (None, p["method"]) else "prefixed/upper-case/default",
            "explicit_start_vector": p.get("start") is not None,
            "restart_at_last_point_with_other_fixed_values": bool(case.get("restart_at_last_point")),
            "tolerance_larger_than_point_spacing": p.get("tol") is not None and len(case["pool"]) % 3 == 1,
            "failed_perturbed_runs": "none" if p.get("fail") is None else
                                     f"perturbations {p['fail']['perts']} of one realization, perturbation_min_success={p.get('pert_min_success')}",
            "all_rows_stream": any(len(s) <= 2 and s[-1][0] in ("con", "jac") and s[-1][1] not in (0, _n_rows(p) - 1)
                                   for s in case["seqs"]),
            "sequences_in_block": 50 * ((len(case["seqs"]) + 49) // 50), "max_len": max(len(s) for s in case["seqs"]),
            "requests_in_block>=": 100 * (n // 100)}


def known_signature(case, obs, violation):
    return None


def shrink(case):
    seqs = case["seqs"]
    if case.get("chain") and len(seqs) > 1:
        # the sequences share one plug-in object: first try a single sequence on a fresh object, then drop
        # halves / single sequences of the chain
        for s in seqs:
            yield {**case, "chain": False, "seqs": [s]}
        h = len(seqs) // 2
        yield {**case, "seqs": seqs[h:]}
        yield {**case, "seqs": seqs[:h]}
        for k in range(len(seqs)):
            yield {**case, "seqs": seqs[:k] + seqs[k + 1:]}
        return
    if len(seqs) > 1:
        # first isolate one failing sequence
        for s in seqs:
            yield {**case, "seqs": [s]}
        return
    s = seqs[0]
    for k in range(len(s)):
        if len(s) > 1:
            yield {**case, "seqs": [s[:k] + s[k + 1:]]}


def search(rng, case):
    if case is None:
        yield from itertools.islice(gen_cases("quick", rng), 0, 120)
        return
    for s in case["seqs"]:
        yield {**case, "seqs": [s]}


def translate(repo):
    from props import C08
    return C08.translate(repo)


RULE = ("exhaustive: for every configuration {slsqp, cobyla} x {no, non-linear, linear, both constraint families}, masked "
        "variants started from an explicit vector (slsqp both / slsqp linear-only with a row dropped by the mask / cobyla both / "
        "vectorised differential_evolution non-linear), {l-bfgs-b, bfgs, cg, newton-cg, tnc}, {nelder-mead, powell}, "
        "differential_evolution serial x {no, non-linear, linear, both} and vectorised x {no, non-linear, both}; methods are "
        "spelled as a user may configure them (prefix, upper case, scipy/default) -- each x speculative x split_evaluations -- "
        "every sequence of requests {objective, gradient, constraint value k, constraint Jacobian k | NonlinearConstraint "
        "fun/jac} x pool points up to length 2 (3 for small alphabets) over 3 pool points and up to length 3 over 2 points "
        "(quick; one more each in thorough), k = first and last normalised row; plus every normalised row k asked first or "
        "after an objective / gradient / row-0 request; for vectorised DE the points are single vectors and batches of sizes "
        "0,1,2,3. The driver overwrites ONE array per shape in place, as SciPy does. One case = one configuration + a block of "
        "<= 350 sequences on fresh objects sharing the oracle table, or a chain of 100 (300) random sequences run back to back "
        "on ONE plug-in object and ONE EnsembleEvaluator (start() once per sequence; masked chains alternate between two start "
        "vectors). Masked chains restart each run at the point the previous run asked for last, with other values of the fixed "
        "variables. Three configurations (slsqp both families, l-bfgs-b, cobyla non-linear) set a large optimizer.tolerance "
        "(1/64) and request a fourth pool point 3/512 away from pool point 0 in every coordinate (distinct by the quantifier's "
        "1e-3(1+|x|), closer than the tolerance). A failure stream (slsqp with non-linear constraints, l-bfgs-b; realization_min_success 1 of 2; some perturbed "
        "runs of one realization return NaN near one pool point while its unperturbed run succeeds; perturbation_min_success "
        "default and explicit, failing and tolerated) makes the combined function+gradient evaluation differ from the "
        "functions-only one if the failure mask of the gradient leaks into the value. Non-trivial = the block contains a sequence with >= 2 requests at >= 2 different points; distinct = "
        "distinct (configuration, block).")
ASSUMPTIONS = [
    "the ensemble values at a point are an oracle F(x), G(x) (C01/C02's business); with the injected deterministic sampler and the deterministic evaluator they are a function of the point, computed for the table by fresh cache-free EnsembleEvaluator instances: the reference VALUES (objective, constraints) are those of a functions-only evaluation, the reference gradients those of a combined evaluation",
    "pool points are pairwise farther apart than 1e-3(1+|x|), so np.allclose and the evaluator's atol=1e-15 test coincide with equality of pool index (the same free coordinates under another start vector of a masked problem are another point)",
    "requests arrive sequentially (no concurrent calls into the plug-in)",
    "batches are only issued to gradient-free (population) methods; gradient requests for a batch are outside the modelled domain (the code asserts ndim == 1)",
    "the caller may overwrite the arrays it passes in after a call returns, but does not write into the arrays it receives (the callables hand out views of the plug-in's caches; SciPy copies them)",
]
TRUSTED = [
    "the scripted driver standing in for scipy.optimize.minimize / differential_evolution (calls the real callables, records returns)",
    "the recording subclass of EnsembleOptimizer (logs _optimizer_callback arguments, then calls the real method) and the logging deterministic evaluator / sampler plug-in",
    "SciPy's algorithms themselves are not modelled: the theorem quantifies over all request sequences instead",
]

MANIFEST = {
    "level_text": ("Machine-checked Coq proof, by induction over arbitrary request sequences from the initial state -- and from the "
                   "state after start() is called again on an object in ANY state, and over chains of runs on one object -- that the "
                   "executable model of the SciPy plug-in's point cache (Model/ScipyCache.v: _check_cached_variables, "
                   "_get_function_or_gradient, _compute_functions_and_gradients, the lazily filled NormalizedConstraints cache of the "
                   "constraint callables, batches for population methods, start(), and EnsembleEvaluator's function cache) returns for "
                   "every request the oracle's ensemble value at the requested point whichever callable is invoked first, requests each "
                   "of {functions, gradients} at most once while the point does not change, never requests gradients for a method of the "
                   "generated no-gradient table, never computes both in one evaluation under split_evaluations, and returns the same "
                   "values with and without speculative; the model is tied to the code on every run by an in-Coq correspondence over "
                   "all request sequences up to the stated length on the real plug-in + EnsembleOptimizer + EnsembleEvaluator."),
    "level_note": ("Trusted: Coq kernel + VM; translator for the method tables; the Python driver that replaces scipy's minimize/"
                   "differential_evolution and the recording wrappers; the oracle table comes from fresh EnsembleEvaluator runs (C01/C02 "
                   "are separate properties). 'Never evaluated again' is stated at the level of optimizer-callback requests (a gradient-"
                   "only request at a point whose functions were not cached makes the evaluator recompute function values internally; "
                   "the evaluator-level cache reuse is proved separately as C07_evaluator_cache_reuse). Failed perturbed runs of a "
                   "realization (tolerated by realization_min_success) are exercised for gradient-based methods; NaN->inf for DE and "
                   "failed unperturbed runs are not (C03). The callables return views of the plug-in's caches: a caller that writes into "
                   "a returned array corrupts later answers for the same point; SciPy does not, and the check does not either. "
                   "All theorems print 'Closed under the global context'."),
    "technique": "Coq proof (state-machine invariant by induction over request sequences) + exhaustive bounded in-Coq differential correspondence with the real plug-in",
    "design_ref": "DESIGN.md section 4, C07",
}
