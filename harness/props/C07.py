"""C07 -- values handed to the optimizer match the ensemble for any request order (SciPy plug-in cache).

Correspondence: `minimize` / `differential_evolution` in ropt.plugins.optimizer.scipy are replaced (in
this process only) by a scripted driver that receives the real `fun`, `jac`, constraint dicts /
NonlinearConstraint objects and calls them in an enumerated order at points of a small pool.  Everything
below is real: the EnsembleOptimizer callback, EnsembleEvaluator (with its own function cache), a
deterministic polynomial evaluator and an injected deterministic sampler (so gradients are a function of the
point).  The values returned, the optimizer-callback invocations and the user-evaluator calls are compared
inside Coq with Model/ScipyCache.v run on the same sequence with an oracle table computed by fresh,
cache-free evaluations at the pool points.

One case = one plug-in configuration + a block of request sequences (the oracle table is shared by the
block; the distinct returned values are interned).
"""
from __future__ import annotations

import itertools
import math

import coqio as cq

ID = "C07"
THEOREM_FILE = "Props/C07.v"
CHK_MODULE = "Check.Chk_C07"
CASE_TYPE = "Chk_C07.case"
CHECK_FN = "Chk_C07.check_case"
HEADER = "From Ropt Require Import Model.ScipyProblem Model.ScipyCache Gen.Generated.\nOpen Scope nat_scope."
SHARD_SIZE = 6
PARALLEL = True
CASE_TIMEOUT = 600
EXHAUSTIVE = {"quick": True, "thorough": True}
BLOCK = 350           # request sequences per case

INF = float("inf")

# --------------------------------------------------------------------------------------------------
# shared with C08: building the real objects for a problem description
# --------------------------------------------------------------------------------------------------
R_WEIGHTS = [0.75, 0.25]
N_PERT = 3
MAGNITUDE = 1.0 / 64
_SAMPLES = [[[1, 0.5, -1, 0.5], [-0.5, 1, 0.5, -1], [0.5, -1, 1, 1]],
            [[-1, 0.5, 0.5, 1], [1, 1, -0.5, 0.5], [0.5, -0.5, -1, -0.5]]]


def poly(fn, x, r):
    """value of one deterministic 'ensemble member' function at the rows of x for realizations r"""
    import numpy as np
    x = np.asarray(x, dtype=float)
    lin = np.asarray(fn["lin"], dtype=float)
    quad = np.asarray(fn["quad"], dtype=float)
    return fn["c"] + fn["rshift"] * np.asarray(r, dtype=float) + x @ lin + (x * x) @ quad


def config_dict(prob, spec=False, split=False):
    v = {"initial_values": prob["x0"]}
    if any(math.isfinite(b) for b in prob["lower"]) or any(math.isfinite(b) for b in prob["upper"]):
        v["lower_bounds"] = prob["lower"]
        v["upper_bounds"] = prob["upper"]
    if prob.get("mask") is not None:
        v["mask"] = prob["mask"]
    if prob.get("types") is not None:
        v["types"] = prob["types"]
    opt = {"method": prob.get("spelling", prob["method"]), "speculative": spec, "split_evaluations": split,
           "parallel": bool(prob.get("parallel", False))}
    if prob.get("max_iter") is not None:
        opt["max_iterations"] = prob["max_iter"]
    if prob.get("tol") is not None:
        opt["tolerance"] = prob["tol"]
    o = prob.get("options")
    if o is not None:
        opt["options"] = o["dict"] if "dict" in o else o["list"]
    if prob.get("output_dir"):
        opt["output_dir"] = prob["output_dir"]
    d = {"variables": v,
         "realizations": {"weights": R_WEIGHTS},
         "gradient": {"number_of_perturbations": N_PERT, "perturbation_magnitudes": MAGNITUDE,
                      "boundary_types": 1},        # BoundaryType.NONE: perturbations are never reflected
         "samplers": [{"method": "verif/fixed"}],
         "optimizer": opt}
    if prob.get("nl") is not None:
        d["nonlinear_constraints"] = {"lower_bounds": [b[0] for b in prob["nl"]],
                                      "upper_bounds": [b[1] for b in prob["nl"]]}
    if prob.get("lin") is not None:
        d["linear_constraints"] = {"coefficients": prob["lin"]["A"], "lower_bounds": prob["lin"]["lb"],
                                   "upper_bounds": prob["lin"]["ub"]}
    return d


class Env:
    """The real objects for one problem: config, plug-in manager with the deterministic sampler, evaluator."""

    def __init__(self, prob, funcs, spec=False, split=False):
        import numpy as np
        from ropt.config.enopt import EnOptConfig
        from ropt.evaluator import EvaluatorResult
        from ropt.plugins import PluginManager
        from ropt.plugins.sampler.base import Sampler, SamplerPlugin

        n_full = len(prob["x0"])
        samples = np.array(_SAMPLES, dtype=float)[:, :, :n_full]

        class FixedSampler(Sampler):
            def __init__(self, cfg, idx, mask, rng):  # noqa: ARG002
                self._mask = mask

            def generate_samples(self):
                s = samples.copy()
                if self._mask is not None:
                    s[..., ~self._mask] = 0.0
                return s

        class FixedPlugin(SamplerPlugin):
            def create(self, cfg, idx, mask, rng):
                return FixedSampler(cfg, idx, mask, rng)

            def is_supported(self, method):
                return method.lower() == "fixed"

        self.pm = PluginManager()
        self.pm.add_plugin("sampler", "verif", FixedPlugin())
        self.prob, self.funcs = prob, funcs
        self.cfg = EnOptConfig.model_validate(config_dict(prob, spec, split))
        self.log = []
        self.n_con = len(funcs["con"]) if prob.get("nl") is not None else 0

        def evaluator(variables, context):
            x = np.asarray(variables, dtype=float)
            r = np.asarray(context.realizations)
            pert = None if context.perturbations is None else np.asarray(context.perturbations).copy()
            obj = poly(funcs["obj"], x, r)[:, None]
            cons = None
            if self.n_con:
                cons = np.stack([poly(f, x, r) for f in funcs["con"][: self.n_con]], axis=1)
            self.log.append(("ev", x.copy(), pert))
            return EvaluatorResult(objectives=obj, constraints=cons)

        self.evaluator = evaluator
        m = prob.get("mask")
        self.free = np.ones(n_full, dtype=bool) if m is None else np.array(m, dtype=bool)
        self.x0 = np.array(prob["x0"], dtype=float)

    def complete(self, xfree):
        full = self.x0.copy()
        full[self.free] = xfree
        return full

    def new_evaluator(self):
        from ropt.ensemble_evaluator import EnsembleEvaluator
        return EnsembleEvaluator(self.cfg, None, self.evaluator, self.pm)

    def oracle(self, xfree):
        """ensemble values at a point from a fresh, cache-free EnsembleEvaluator: (F, G) as the optimizer
        callback would hand them over (free variables only)"""
        import numpy as np
        n = len(self.log)
        fr, gr = self.new_evaluator().calculate(self.complete(np.asarray(xfree, dtype=float)),
                                                compute_functions=True, compute_gradients=True)
        del self.log[n:]
        cons = [] if fr.functions.constraints is None else [float(v) for v in fr.functions.constraints]
        jac = [] if gr.gradients.constraints is None else \
            [[float(v) for v in row[self.free]] for row in gr.gradients.constraints]
        return ([float(fr.functions.weighted_objective), cons],
                [[float(v) for v in gr.gradients.weighted_objective[self.free]], jac])

    def start(self, driver):
        """construct the real EnsembleOptimizer (-> SciPyOptimizer) and start it with `driver` in place of
        scipy.optimize.minimize / differential_evolution; returns whatever the driver returned"""
        import numpy as np
        import ropt.plugins.optimizer.scipy as sp
        from ropt.optimization import EnsembleOptimizer

        env = self

        class Recording(EnsembleOptimizer):
            def _optimizer_callback(self, variables, *, return_functions, return_gradients):
                env.log.append(("cb", np.array(variables, dtype=float, copy=True), bool(return_functions),
                                bool(return_gradients)))
                return super()._optimizer_callback(variables, return_functions=return_functions,
                                                   return_gradients=return_gradients)

        out = {}

        def fake_minimize(**kw):
            out["result"] = driver("minimize", kw)

        def fake_de(**kw):
            out["result"] = driver("differential_evolution", kw)

        old = sp.minimize, sp.differential_evolution
        sp.minimize, sp.differential_evolution = fake_minimize, fake_de
        try:
            opt = Recording(self.cfg, self.new_evaluator(), self.pm)
            out["exit"] = opt.start(self.x0.copy()).name
        finally:
            sp.minimize, sp.differential_evolution = old
        return out


# --------------------------------------------------------------------------------------------------
# generators
# --------------------------------------------------------------------------------------------------
def _dy(rng, lo, hi, den=4):
    return rng.randint(lo * den, hi * den) / den


def _funcs(rng, n_full):
    def one(quadratic):
        return {"c": _dy(rng, -2, 2), "rshift": _dy(rng, -1, 1),
                "lin": [_dy(rng, -2, 2) for _ in range(n_full)],
                "quad": [(_dy(rng, 0, 1, 2) if quadratic else 0.0) for _ in range(n_full)]}
    return {"obj": one(True), "con": [one(False), one(True)]}


def _pool(rng, n):
    base = [[1.0, 2.0, -0.5, 0.25], [3.0, -1.0, 1.5, 2.0], [-1.0, 0.5, 2.5, -2.0]]
    return [[v + _dy(rng, 0, 1, 8) for v in p[:n]] for p in base]


GRAD_FREE_PLAIN = ["nelder-mead", "powell"]
GRAD_PLAIN = ["l-bfgs-b", "bfgs", "cg", "newton-cg", "tnc"]


def _problem(method, nl, lin, n_full=2, mask=None, parallel=False):
    lower = [-INF] * n_full
    upper = [INF] * n_full
    if method == "differential_evolution":
        lower, upper = [-8.0] * n_full, [8.0] * n_full
    nfree = n_full if mask is None else sum(mask)
    prob = {"method": method, "mask": mask, "x0": [0.0, 0.5, -0.25, 1.0][:n_full], "lower": lower, "upper": upper,
            "nl": None, "lin": None, "options": None, "max_iter": None, "parallel": parallel, "tol": None}
    if nl:
        prob["nl"] = [[1.0, INF], [-INF, 2.0]] if method != "slsqp" else [[1.0, INF], [-1.0, 2.0]]
    if lin:
        row = [1.0, -1.0, 0.5, 2.0][:n_full]
        row2 = [0.5, 2.0, 1.0, -1.0][:n_full]
        if mask is not None:
            row = [a if m else 0.0 for a, m in zip(row, mask)]      # survives the mask
        prob["lin"] = {"A": [row, row2], "lb": [0.0, -INF], "ub": [4.0, 3.0]}
        if method == "slsqp":
            prob["lin"]["lb"][1] = 3.0                                # an equality row
    prob["_nfree"] = nfree
    return prob


def _letters(kinds, pts):
    out = []
    for k in kinds:
        for p in pts:
            out.append(list(k) + [p])
    return out


def _seqs(letters, n):
    for length in range(1, n + 1):
        yield from (list(s) for s in itertools.product(letters, repeat=length))


def _n_rows(prob):
    """number of normalised rows (for choosing constraint indices); mirrors nothing: only picks indices"""
    n = 0
    for lo, hi in (prob["nl"] or []):
        n += 1 if lo == hi else int(math.isfinite(lo)) + int(math.isfinite(hi))
    if prob["lin"] is not None:
        A = prob["lin"]["A"]
        for a, lo, hi in zip(A, prob["lin"]["lb"], prob["lin"]["ub"]):
            if prob["mask"] is not None and any(c != 0 for c, m in zip(a, prob["mask"]) if not m):
                continue
            n += 1 if lo == hi else int(math.isfinite(lo)) + int(math.isfinite(hi))
    return n


def _configs(tier):
    """(problem, kinds of requests, points for the long sequences, points for the short ones)"""
    S = [["s", i] for i in range(3)]
    out = []
    for nl, lin in ((False, False), (True, False), (False, True), (True, True)):
        p = _problem("slsqp", nl, lin)
        kinds = [["obj"], ["grad"]]
        if nl or lin:
            ks = sorted({0, _n_rows(p) - 1})
            kinds += [["con", k] for k in ks] + [["jac", k] for k in ks]
        out.append((p, kinds, S))
        p = _problem("cobyla", nl, lin)
        kinds = [["obj"]]
        if nl or lin:
            ks = sorted({0, _n_rows(p) - 1})
            kinds += [["con", k] for k in ks]
        out.append((p, kinds, S))
    # masked variant: three variables, the middle one fixed
    p = _problem("slsqp", True, True, n_full=3, mask=[True, False, True])
    ks = sorted({0, _n_rows(p) - 1})
    out.append((p, [["obj"], ["grad"]] + [["con", k] for k in ks] + [["jac", k] for k in ks], S))
    for m in GRAD_PLAIN:
        out.append((_problem(m, False, False), [["obj"], ["grad"]], S))
    for m in GRAD_FREE_PLAIN:
        out.append((_problem(m, False, False), [["obj"]], S))
    for nl, lin in ((False, False), (True, False), (True, True)):
        p = _problem("differential_evolution", nl, lin)
        kinds = [["obj"]] + ([["conall"], ["jacall"]] if nl else [])
        out.append((p, kinds, S))
        p = _problem("differential_evolution", nl, lin, parallel=True)
        B = [["s", 0], ["s", 1], ["b", [0]], ["b", [0, 1]], ["b", [1, 0]], ["b", [0, 1, 2]], ["b", []]]
        out.append((p, kinds, B))
    return out


def gen_cases(tier, rng):
    funcs_by_n = {n: _funcs(rng, n) for n in (2, 3)}
    pool_by_n = {n: _pool(rng, n) for n in (2, 3)}
    for prob, kinds, pts in _configs(tier):
        n_full = len(prob["x0"])
        pool = pool_by_n[prob["_nfree"]]
        funcs = funcs_by_n[n_full]
        nk, npt = len(kinds), len(pts)
        # exhaustive: all sequences up to length 2 (3 when the alphabet is small) over all points, and the
        # longer ones over a reduced alphabet (first two points)
        if tier == "quick":
            full_len = 3 if nk * npt <= 9 else 2
            red_len = 3
            red_pts = pts[:2] if nk * npt > 9 else pts
        else:
            full_len = 4 if nk * npt <= 9 else 3
            red_len = 4
            red_pts = pts[:2] if nk * npt > 9 else pts
        if len(pts) > 3:      # vectorised DE: shapes matter more than indices
            red_pts = [pts[0], pts[2], pts[3], pts[6]] if nk > 1 else pts
        seqs = list(_seqs(_letters(kinds, pts), full_len))
        seen = {cq_key(s) for s in seqs}
        for s in _seqs(_letters(kinds, red_pts), red_len):
            if len(s) > full_len and cq_key(s) not in seen:
                seqs.append(s)
        for spec in (False, True):
            for split in (False, True):
                for k in range(0, len(seqs), BLOCK):
                    yield {"prob": {k2: v for k2, v in prob.items() if not k2.startswith("_")}, "funcs": funcs,
                           "pool": pool, "spec": spec, "split": split, "seqs": seqs[k:k + BLOCK]}


def cq_key(s):
    return repr(s)


# --------------------------------------------------------------------------------------------------
# running the real code
# --------------------------------------------------------------------------------------------------
def _pt_of(env, pool_full, arr, parallel):
    """pool index structure of an array handed to the optimizer callback (already transposed for parallel)"""
    import numpy as np
    arr = np.asarray(arr, dtype=float)

    def idx(v):
        for i, p in enumerate(pool_full):
            if v.shape == p.shape and np.allclose(v, p, rtol=0, atol=1e-12):
                return i
        return 99
    if arr.ndim == 1:
        return ["s", idx(arr)]
    return ["b", [idx(arr[k]) for k in range(arr.shape[0])]]


def _nearest(pool_full, v):
    import numpy as np
    d = [float(np.max(np.abs(v - p))) for p in pool_full]
    i = int(np.argmin(d))
    return i if d[i] <= 2 * MAGNITUDE else 99


def _exact(pool_full, v):
    import numpy as np
    for i, p in enumerate(pool_full):
        if np.array_equal(v, p):
            return i
    return 99


def _ev_kind(env, pool_full, x, pert, inv_pt):
    """classify one call of the user's evaluator"""
    import numpy as np
    nr = len(R_WEIGHTS)
    if pert is None:
        if x.shape[0] % nr or not all(np.array_equal(x[k], x[(k // nr) * nr]) for k in range(x.shape[0])):
            return ["bad"]
        ids = [_exact(pool_full, v) for v in x[::nr]]
        pt = ["s", ids[0]] if inv_pt[0] == "s" and len(ids) == 1 else ["b", ids]
        return ["F", pt]
    if (pert >= 0).all():
        if x.shape[0] != nr * N_PERT:
            return ["bad"]
        ids = {_nearest(pool_full, v) for v in x}
        return ["G", ids.pop()] if len(ids) == 1 else ["bad"]
    unp = x[pert < 0]
    if unp.shape[0] != nr or x.shape[0] != nr * (1 + N_PERT) or not all(np.array_equal(v, unp[0]) for v in unp):
        return ["bad"]
    i = _exact(pool_full, unp[0])
    if i == 99 or {_nearest(pool_full, v) for v in x[pert >= 0]} != {i}:
        return ["bad"]
    return ["FG", i]


def _ret(v):
    import numpy as np
    a = np.asarray(v, dtype=float)
    if a.ndim <= 1:
        return ["v", [float(t) for t in np.ravel(a)]]
    return ["m", [[float(t) for t in row] for row in a]]


def run_impl(case):
    import warnings

    import numpy as np
    warnings.simplefilter("ignore")
    prob = case["prob"]
    env = Env(prob, case["funcs"], case["spec"], case["split"])
    pool = [np.array(p, dtype=float) for p in case["pool"]]
    pool_full = [env.complete(p) for p in pool]
    table = [env.oracle(p) for p in pool]
    parallel = bool(prob.get("parallel")) and prob["method"] == "differential_evolution"
    nfree = int(env.free.sum())
    runs = []
    structure = {}

    def arr_of(pt):
        if pt[0] == "s":
            return pool[pt[1]].copy()
        if not pt[1]:
            return np.zeros((nfree, 0))
        return np.stack([pool[i] for i in pt[1]]).T.copy()     # (N, S) as scipy's vectorised DE passes it

    for seq in case["seqs"]:
        def driver(which, kw, seq=seq):
            cons = kw.get("constraints") or []
            nlc = [c for c in cons if hasattr(c, "fun") and not isinstance(c, dict)]
            structure.setdefault("which", which)
            structure.setdefault("jac", callable(kw.get("jac")))
            structure.setdefault("cons", [[c["type"], "jac" in c] for c in cons if isinstance(c, dict)])
            out = []
            for op in seq:
                kind, pt = op[0], op[-1]
                x = arr_of(pt)
                n0 = len(env.log)
                try:
                    if kind == "obj":
                        r = _ret((kw["fun"] if which == "minimize" else kw["func"])(x))
                    elif kind == "grad":
                        r = _ret(kw["jac"](x))
                    elif kind == "con":
                        r = _ret(cons[op[1]]["fun"](x))
                    elif kind == "jac":
                        r = _ret(cons[op[1]]["jac"](x))
                    elif kind == "conall":
                        r = _ret(nlc[0].fun(x))
                    elif kind == "jacall":
                        r = _ret(nlc[0].jac(x))
                    else:
                        raise ValueError(kind)
                except (AssertionError, IndexError, KeyError, TypeError, ValueError) as e:
                    r = ["err", type(e).__name__]
                invs = []
                for entry in env.log[n0:]:
                    if entry[0] == "cb":
                        invs.append([_pt_of(env, pool, entry[1], parallel), entry[2], entry[3], []])
                    elif invs:
                        invs[-1][3].append(_ev_kind(env, pool_full, entry[1], entry[2], invs[-1][0]))
                    else:
                        invs.append([["s", 98], False, False, [["bad"]]])
                out.append({"ret": r, "inv": invs})
            return out
        env.log.clear()
        res = env.start(driver)
        runs.append(res.get("result"))
    return {"table": table, "runs": runs, "structure": structure}


# --------------------------------------------------------------------------------------------------
# Gallina printing
# --------------------------------------------------------------------------------------------------
def er_pair(lo, hi):
    return f"({cq.er(lo)}, {cq.er(hi)})"


def problem_term(prob):
    """Model.ScipyProblem.problem"""
    mask = "None" if prob.get("mask") is None else f"(Some {cq.bs(prob['mask'])})"
    nl = "None" if prob.get("nl") is None else "(Some " + cq.lst(er_pair(a, b) for a, b in prob["nl"]) + ")"
    if prob.get("lin") is None:
        lin = "None"
    else:
        L = prob["lin"]
        lin = f"(Some (Build_lincons {cq.qmat(L['A'])} {cq.ers(L['lb'])} {cq.ers(L['ub'])}))"
    o = prob.get("options")
    if o is None:
        opts = "NoneOpt"
    elif "list" in o:
        opts = "(ListOpt " + cq.lst(cq.s(t) for t in o["list"]) + ")"
    else:
        opts = "(DictOpt " + cq.lst(f"({cq.s(k)}, {oval_term(v)})" for k, v in o["dict"].items()) + ")"
    mi = "None" if prob.get("max_iter") is None else f"(Some {cq.z(prob['max_iter'])})"
    types = "None" if prob.get("types") is None else "(Some " + cq.bs([t == 2 for t in prob["types"]]) + ")"
    tol = "None" if prob.get("tol") is None else f"(Some {cq.q(prob['tol'])})"
    return (f"(Build_problem {cq.s(prob['method'])} {mask} {cq.qs(prob['x0'])} {cq.ers(prob['lower'])} "
            f"{cq.ers(prob['upper'])} {nl} {lin} {opts} {mi} {cq.b(bool(prob.get('output_dir')))} {types} "
            f"{cq.b(bool(prob.get('parallel')))} {tol})")


def oval_term(v):
    if isinstance(v, bool):
        return f"(OBool {cq.b(v)})"
    if isinstance(v, int):
        return f"(OInt {cq.z(v)})"
    if isinstance(v, str):
        return f"(OStr {cq.s(v)})"
    if isinstance(v, (list, tuple)) and all(isinstance(t, bool) for t in v):
        return f"(OBools {cq.bs(v)})"
    return f"(OStr {cq.s('?' + type(v).__name__)})"


def _pt_term(pt):
    if pt[0] == "s":
        return f"(S_ {int(pt[1])})"
    return "(B_ " + cq.lst(str(int(i)) for i in pt[1]) + ")"


def _op_term(op):
    k = op[0]
    if k == "obj":
        return f"(Obj {_pt_term(op[1])})"
    if k == "grad":
        return f"(Grad {_pt_term(op[1])})"
    if k == "con":
        return f"(Con {int(op[1])} {_pt_term(op[2])})"
    if k == "jac":
        return f"(Jac {int(op[1])} {_pt_term(op[2])})"
    if k == "conall":
        return f"(ConAll {_pt_term(op[1])})"
    return f"(JacAll {_pt_term(op[1])})"


def _ev_term(e):
    if e[0] == "F":
        return f"(EvF {_pt_term(e[1])})"
    if e[0] == "G":
        return f"(EvG {int(e[1])})"
    if e[0] == "FG":
        return f"(EvFG {int(e[1])})"
    return "EvBad"


def _ret_term(r):
    if r[0] == "v":
        return f"(RVec {cq.qs(r[1])})"
    if r[0] == "m":
        return f"(RMat {cq.qmat(r[1])})"
    return "RErr"


def _finite(r):
    if r[0] == "v":
        return all(math.isfinite(t) for t in r[1])
    if r[0] == "m":
        return all(math.isfinite(t) for row in r[1] for t in row)
    return True


def _calls_terms(invs):
    out = []
    for pt, rf, rg, evs in invs:
        if len(evs) == 0:
            evs = [["bad"]]
        for e in evs:          # more than one evaluator call per invocation shows up as an extra pair
            out.append(f"(I_ {_pt_term(pt)} {cq.b(rf)} {cq.b(rg)} {_ev_term(e)})")
    return cq.lst(out)


def coq_case(case, obs):
    table = obs["table"]
    F = cq.lst(f"({cq.q(f[0])}, {cq.qs(f[1])})" for f, _ in table)
    G = cq.lst(f"({cq.qs(g[0])}, {cq.qmat(g[1])})" for _, g in table)
    X = cq.lst(cq.qs(p) for p in case["pool"])
    vals, index = [], {}
    seqs = []
    big = 1.0
    for f, g in table:
        big = max([big, abs(f[0])] + [abs(t) for t in f[1]] + [abs(t) for t in g[0]] + [abs(t) for row in g[1] for t in row])
    for seq, run in zip(case["seqs"], obs["runs"]):
        items = []
        for op, res in zip(seq, run):
            r = res["ret"] if _finite(res["ret"]) else ["err", "nonfinite"]
            key = repr(r)
            if key not in index:
                index[key] = len(vals)
                vals.append(_ret_term(r))
            items.append(f"({_op_term(op)}, {index[key]}, {_calls_terms(res['inv'])})")
        seqs.append(cq.lst(items))
    return (f"(Build_case {problem_term(case['prob'])} {cq.b(case['spec'])} {cq.b(case['split'])} {F} {G} {X} "
            f"{cq.q(big)} {cq.lst(vals)} {cq.lst(seqs)})")


# --------------------------------------------------------------------------------------------------
# the property evaluated directly on the observation (independent of the model)
# --------------------------------------------------------------------------------------------------
def _close(a, b, scale):
    return abs(a - b) <= 1e-12 * scale + 1e-9 * abs(b)


def _vec_close(a, b, scale):
    return len(a) == len(b) and all(_close(x, y, scale) for x, y in zip(a, b))


def _norm_rows(prob):
    """(index, rhs, flip, is_eq) rows from the configured bounds, written from the property text:
    a lower bound l gives c - l >= 0, an upper bound u gives u - c >= 0, l = u gives c - l = 0."""
    pairs = list(prob["nl"] or [])
    kept = []
    if prob["lin"] is not None:
        L = prob["lin"]
        for a, lo, hi in zip(L["A"], L["lb"], L["ub"]):
            if prob["mask"] is not None and any(c != 0 for c, m in zip(a, prob["mask"]) if not m):
                continue
            kept.append([c for c, m in zip(a, prob["mask"] or [True] * len(a)) if m])
            pairs.append([lo, hi])
    rows = []
    for i, (lo, hi) in enumerate(pairs):
        if lo == hi:
            rows.append((i, lo, 1.0))
        else:
            if math.isfinite(lo):
                rows.append((i, lo, 1.0))
            if math.isfinite(hi):
                rows.append((i, hi, -1.0))
    return rows, kept


def oracle(case, obs):
    import ropt.plugins.optimizer.scipy as sp
    prob = case["prob"]
    nograd = prob["method"] in sp._NO_GRADIENT
    table = obs["table"]
    rows, kept = _norm_rows(prob)
    scale = 1.0
    for f, g in table:
        scale = max([scale, abs(f[0])] + [abs(t) for t in f[1]] + [abs(t) for t in g[0]] + [abs(t) for r_ in g[1] for t in r_])
    if len(obs["runs"]) != len(case["seqs"]) or any(r is None for r in obs["runs"]):
        return {"clause": "driver-did-not-run", "detail": obs.get("structure")}
    for si, (seq, run) in enumerate(zip(case["seqs"], obs["runs"])):
        cur = None
        known_f = known_g = False
        for oi, (op, res) in enumerate(zip(seq, run)):
            kind, pt = op[0], op[-1]
            where = {"sequence": si, "request": oi, "ops": seq}
            ret = res["ret"]
            # ---- the value is the ensemble value at the same point
            exp = None
            if pt[0] == "s":
                f, g = table[pt[1]]
                lin_vals = [sum(c * x for c, x in zip(a, case["pool"][pt[1]])) for a in kept]
                raw = (list(f[1]) if prob["nl"] is not None else []) + lin_vals
                rawj = (list(g[1]) if prob["nl"] is not None else []) + kept
                if kind == "obj":
                    exp = ["v", [f[0]]]
                elif kind == "grad" and not nograd:
                    exp = ["v", g[0]]
                elif kind == "con":
                    i, rhs, sign = rows[op[1]]
                    exp = ["v", [sign * (raw[i] - rhs)]]
                elif kind == "jac":
                    i, rhs, sign = rows[op[1]]
                    exp = ["v", [sign * t for t in rawj[i]]]
                elif kind == "conall":
                    exp = ["v", list(f[1])]
            elif kind == "obj":
                exp = ["v", [table[i][0][0] for i in pt[1]]]
            elif kind == "conall":
                exp = ["v", []] if not pt[1] else ["m", [[table[i][0][1][k] for i in pt[1]] for k in range(len(table[0][0][1]))]]
            if exp is not None:
                ok = ret[0] == exp[0] and (
                    _vec_close(ret[1], exp[1], scale) if exp[0] == "v" else
                    (len(ret[1]) == len(exp[1]) and all(_vec_close(a, b, scale) for a, b in zip(ret[1], exp[1]))))
                if not ok:
                    return {"clause": "value-not-the-ensemble-value-at-this-point", "detail": {**where, "returned": ret, "expected": exp}}
            # ---- evaluations caused
            if pt != cur:          # any request at another point (also an empty batch) ends "the current point"
                cur, known_f, known_g = pt, False, False
            for ipt, rf, rg, evs in res["inv"]:
                if ipt != pt:
                    return {"clause": "evaluation-at-another-point", "detail": {**where, "invocation": [ipt, rf, rg]}}
                if nograd and rg:
                    return {"clause": "gradient-evaluated-for-gradient-free-method", "detail": {**where, "invocation": [ipt, rf, rg]}}
                if case["split"] and rf and rg:
                    return {"clause": "split-evaluations-computed-both", "detail": {**where, "invocation": [ipt, rf, rg]}}
                if (rf and known_f) or (rg and known_g):
                    return {"clause": "recomputed-for-the-current-point", "detail": {**where, "invocation": [ipt, rf, rg]}}
                known_f, known_g = known_f or rf, known_g or rg
                if len(evs) != 1 or evs[0][0] == "bad":
                    return {"clause": "evaluator-calls-malformed", "detail": {**where, "evaluator": evs}}
                if evs[0][0] in ("FG", "G") and not rg:
                    return {"clause": "perturbations-evaluated-without-gradient-request", "detail": {**where, "evaluator": evs}}
                if nograd and evs[0][0] != "F":
                    return {"clause": "gradient-evaluated-for-gradient-free-method", "detail": {**where, "evaluator": evs}}
    return None


def nontrivial(case, obs):
    return any(len(s) >= 2 and len({repr(o[-1]) for o in s}) >= 2 for s in case["seqs"])


def features(case, obs):
    p = case["prob"]
    cons = "+".join(k for k in ("nl", "lin") if p[k] is not None) or "none"
    n = sum(len(s) for s in case["seqs"])
    return {"method": p["method"] + ("/vectorized" if p.get("parallel") else ""), "constraints": cons,
            "speculative": case["spec"], "split": case["split"], "masked": p["mask"] is not None,
            "sequences_in_block": 50 * ((len(case["seqs"]) + 49) // 50), "max_len": max(len(s) for s in case["seqs"]),
            "requests_in_block>=": 100 * (n // 100)}


def known_signature(case, obs, violation):
    return None


def shrink(case):
    seqs = case["seqs"]
    if len(seqs) > 1:
        # first isolate one failing sequence
        for s in seqs:
            yield {**case, "seqs": [s]}
        return
    s = seqs[0]
    for k in range(len(s)):
        if len(s) > 1:
            yield {**case, "seqs": [s[:k] + s[k + 1:]]}


def search(rng, case):
    if case is None:
        yield from itertools.islice(gen_cases("quick", rng), 0, 120)
        return
    for s in case["seqs"]:
        yield {**case, "seqs": [s]}


def translate(repo):
    from props import C08
    return C08.translate(repo)


RULE = ("exhaustive: for every configuration {slsqp, cobyla} x {no, non-linear, linear, both constraint families} "
        "(+ a masked slsqp problem), {l-bfgs-b, bfgs, cg, newton-cg, tnc}, {nelder-mead, powell}, differential_evolution "
        "serial and vectorised x {no, non-linear, both} -- each x speculative x split_evaluations -- every sequence of "
        "requests {objective, gradient, constraint value k, constraint Jacobian k | NonlinearConstraint fun/jac} x pool "
        "points up to length 2 (3 for small alphabets) over 3 pool points and up to length 3 over 2 points (quick; one "
        "more each in thorough); for vectorised DE the points are single vectors and batches of sizes 0,1,2,3. One "
        "case = one configuration + a block of <= 350 sequences sharing the oracle table. Non-trivial = the block "
        "contains a sequence with >= 2 requests at >= 2 different points; distinct = distinct (configuration, block).")
ASSUMPTIONS = [
    "the ensemble values at a point are an oracle F(x), G(x) (C01/C02's business); with the injected deterministic sampler and the deterministic evaluator they are a function of the point, computed for the table by fresh cache-free EnsembleEvaluator instances",
    "pool points are pairwise farther apart than 1e-3(1+|x|), so np.allclose and the evaluator's atol=1e-15 test coincide with equality of pool index",
    "requests arrive sequentially (no concurrent calls into the plug-in)",
    "batches are only issued to gradient-free (population) methods; gradient requests for a batch are outside the modelled domain (the code asserts ndim == 1)",
]
TRUSTED = [
    "the scripted driver standing in for scipy.optimize.minimize / differential_evolution (calls the real callables, records returns)",
    "the recording subclass of EnsembleOptimizer (logs _optimizer_callback arguments, then calls the real method) and the logging deterministic evaluator / sampler plug-in",
    "SciPy's algorithms themselves are not modelled: the theorem quantifies over all request sequences instead",
]

MANIFEST = {
    "level_text": ("Machine-checked Coq proof, by induction over arbitrary request sequences from the initial state, that the "
                   "executable model of the SciPy plug-in's point cache (Model/ScipyCache.v: _check_cached_variables, "
                   "_get_function_or_gradient, _compute_functions_and_gradients, the lazily filled NormalizedConstraints cache of the "
                   "constraint callables, batches for population methods, and EnsembleEvaluator's function cache) returns for every "
                   "request the oracle's ensemble value at the requested point whichever callable is invoked first, requests each of "
                   "{functions, gradients} at most once while the point does not change, never requests gradients for a method of the "
                   "generated no-gradient table, never computes both in one evaluation under split_evaluations, and returns the same "
                   "values with and without speculative; the model is tied to the code on every run by an in-Coq correspondence over "
                   "all request sequences up to the stated length on the real plug-in + EnsembleOptimizer + EnsembleEvaluator."),
    "level_note": ("Trusted: Coq kernel + VM; translator for the method tables; the Python driver that replaces scipy's minimize/"
                   "differential_evolution and the recording wrappers; the oracle table comes from fresh EnsembleEvaluator runs (C01/C02 "
                   "are separate properties). 'Never evaluated again' is stated at the level of optimizer-callback requests (a gradient-"
                   "only request at a point whose functions were not cached makes the evaluator recompute function values internally; "
                   "the evaluator-level cache reuse is proved separately as C07_evaluator_cache_reuse). NaN->inf for DE and failed "
                   "realizations are not exercised (C03). All theorems print 'Closed under the global context'."),
    "technique": "Coq proof (state-machine invariant by induction over request sequences) + exhaustive bounded in-Coq differential correspondence with the real plug-in",
    "design_ref": "DESIGN.md section 4, C07",
}
