"""C13 -- constraint differences and violations are reported exactly for all bound kinds.

Correspondence: the real ConstraintInfo.create / __post_init__ / transform_from_optimizer and
_violates_constraint (direct calls on validated EnOptConfig objects, and end to end through an
evaluator step, an optimizer step and BasicOptimizer with 'last' and 'best' trackers) are run on variable vectors, bound vectors over every
finite / -inf / +inf pattern, linear and non-linear constraints of all bound kinds, with and without
scaling transforms; the nine reported arrays, their presence and the feasibility verdict are compared
inside Coq with Model/ConstraintInfo.v (tolerance for reals; presence, infinities, the violation
formula on the reported differences and the verdict exactly).
"""
from __future__ import annotations

import itertools
import math
from fractions import Fraction

import coqio as cq

ID = "C13"
THEOREM_FILE = "Props/C13.v"
CHK_MODULE = "Check.Chk_C13"
CASE_TYPE = "Chk_C13.case"
CHECK_FN = "Chk_C13.check_case"
HEADER = "From Ropt Require Import Model.ConstraintInfo."
SHARD_SIZE = 400
PARALLEL = True
EXHAUSTIVE = {"quick": True, "thorough": True}
RULE = ("exhaustive: every assignment of the 7 per-variable bound kinds (-inf,-inf) (-inf,b) (-inf,+inf) (a,b) (a,a) "
        "(a,+inf) (+inf,+inf) to V <= 3 variables (399 patterns), each with sampled (quick) / all 5^V (thorough) positions of "
        "the point relative to the bounds (below, on lower, inside, on upper, above); plus sampled cases with V <= 8, linear "
        "constraints (1-3 rows) and non-linear constraints (1-3) of all kinds (now and then (+inf,+inf) / (-inf,-inf)), "
        "tolerances None/0/1e-10/dyadic/negative with values exactly tolerance away from a bound, variable scalers (scales "
        "and/or offsets) and non-linear constraint scalers (each alone and together), the same object transformed twice, "
        "the scaler object validating another configuration (same row count, other row scalings) first, "
        "a full-precision (53-bit) stream, missing function values; and end-to-end runs -- evaluator step, optimizer step "
        "(scripted optimizer) and BasicOptimizer (configuration dict or validated EnOptConfig) -- that deliver 1-4 function "
        "results as single vectors and 2-D batches over one or several evaluations, some without function values (failed "
        "evaluation), to a 'last' and a 'best' tracker with that tolerance: every delivered result (optimizer-domain and "
        "user-domain) is checked and the retained results are compared with the model's choice. "
        "Non-trivial = constraint info is produced and at least one reported violation is non-zero or a bound is infinite; "
        "distinct = distinct inputs.")
ASSUMPTIONS = [
    "variable, linear-constraint and non-linear constraint values are finite numbers (NaN function values are outside the property: a NaN difference compares false and is reported as violation 0); a failed evaluation yields a result without function values and without non-linear constraint differences",
    "scale factors of transforms are positive (C11's domain); scale 0 is rejected by the scaler's own division",
    "the non-linear constraint scaler is the diagonal scaler users write (tests/test_optimizer.py ConstraintScaler): bounds, values and differences multiplied/divided by per-constraint factors",
    "reading of 'treated as feasible': the trackers apply the tolerance test to the result in the optimizer's domain (the transformed_results item, by design of ropt: that is where the optimizer enforces constraints); the user-domain violations of the retained result are those scaled by the variable / equation / constraint scales",
]
TRUSTED = [
    "the harness builds the FunctionResults wrapper handed to _violates_constraint and reads VariableScaler._equation_scaling (private attribute) as an observation",
    "the scripted optimizer plug-in and the evaluator of the end-to-end stream; BasicOptimizer._optimizer_context (private attribute) is used to register the plug-in and a raw FINISHED_EVALUATION observer",
]

KINDS = ["nn", "nb", "free", "ab", "eq", "ap", "pp"]
INF = math.inf


# ---- generators -----------------------------------------------------------------
def _dy(rng, lo, hi, den=8):
    return rng.randint(lo * den, hi * den) / den


def _bounds_of(kind, rng):
    a = _dy(rng, -2, 1)
    w = rng.choice([0.125, 0.5, 1.0, 2.0])
    return {"nn": (-INF, -INF), "nb": (-INF, a), "free": (-INF, INF), "ab": (a, a + w), "eq": (a, a),
            "ap": (a, INF), "pp": (INF, INF)}[kind]


def _position(lb, ub, pos, rng, tol=None):
    """A value placed relative to (lb, ub): 0 below, 1 on lower, 2 inside, 3 on upper, 4 above,
    5 exactly tol below lower, 6 exactly tol above upper."""
    d = rng.choice([0.125, 0.25, 1.0, 3.0])
    flo, fup = math.isfinite(lb), math.isfinite(ub)
    t = tol if tol else 0.125
    if pos == 0 and flo:
        return lb - d
    if pos == 1 and flo:
        return lb
    if pos == 3 and fup:
        return ub
    if pos == 4 and fup:
        return ub + d
    if pos == 5 and flo:
        return lb - t
    if pos == 6 and fup:
        return ub + t
    if flo and fup:
        return (lb + ub) / 2
    if flo:
        return lb + d
    if fup:
        return ub - d
    return _dy(rng, -3, 3)


def _base(x, lb, ub, **kw):
    c = {"kind": "direct", "x": x, "lb": lb, "ub": ub, "lin": None, "nl": None, "pass_cons": True, "tol": 1e-10,
         "tr": None}
    c.update(kw)
    return c


def _pattern_cases(tier, rng):
    maxv = 3
    for V in range(1, maxv + 1):
        for kinds in itertools.product(KINDS, repeat=V):
            bnds = [_bounds_of(k, rng) for k in kinds]
            lb = [b[0] for b in bnds]
            ub = [b[1] for b in bnds]
            if tier == "thorough":
                poss = itertools.product(range(5), repeat=V)
            else:
                poss = [[rng.randrange(5) for _ in range(V)] for _ in range(2)]
            for ps in poss:
                x = [_position(l, u, p, rng) for l, u, p in zip(lb, ub, ps)]
                yield _base(x, lb, ub, tol=rng.choice([None, 0.0, 1e-10, 0.125]), _tag="pattern")


def _rand_transform(rng, V, n_nl, force=False):
    if not force and rng.random() < 0.45:
        return None
    sc_pool = [0.25, 0.5, 2.0, 4.0, 1.5, 0.75, 3.0, 8.0, 1.0]
    mode = rng.choice(["so", "so", "s", "o", "nl", "so+nl", "s+nl"])
    tr = {"scales": None, "offsets": None, "nl_scales": None, "var": False}
    if "s" in mode.split("+")[0] and mode != "nl":
        tr["scales"] = [rng.choice(sc_pool) for _ in range(V)]
        tr["var"] = True
    if "o" in mode.split("+")[0] and mode != "nl":
        tr["offsets"] = [_dy(rng, -2, 2) for _ in range(V)]
        tr["var"] = True
    if "nl" in mode and n_nl:
        tr["nl_scales"] = [rng.choice(sc_pool) for _ in range(n_nl)]
    if not tr["var"] and tr["nl_scales"] is None:
        return None
    return tr


def _sampled_case(rng, full=False, kind="direct"):
    V = rng.randint(1, 8 if kind == "direct" else 4)
    tol = rng.choice([None, 0.0, 1e-10, 1e-10, 0.125, 1.0] + ([-0.125] if kind == "direct" and rng.random() < 0.2 else []))
    val = (lambda lo, hi: rng.uniform(lo, hi)) if full else (lambda lo, hi: _dy(rng, lo, hi))
    lb, ub, x = [], [], []
    for _ in range(V):
        k = rng.choice(["nb", "free", "ab", "ab", "eq", "ap", "ap", "nn", "pp"] if kind == "direct"
                       else ["nb", "free", "ab", "ab", "eq", "ap"])
        l, u = _bounds_of(k, rng)
        if full and math.isfinite(l):
            l += rng.uniform(-0.1, 0.0)
        if full and math.isfinite(u):
            u += rng.uniform(0.0, 0.1)
        lb.append(l)
        ub.append(u)
        p = rng.choice([0, 1, 2, 2, 2, 3, 4, 5, 6])
        v = _position(l, u, p, rng, tol)
        x.append(v + rng.uniform(-1e-3, 1e-3) if full and p in (0, 2, 4) else v)
    lin = None
    if rng.random() < 0.6:
        m = rng.randint(1, 3)
        A = [[val(-2, 2) for _ in range(V)] for _ in range(m)]
        for r in A:
            if all(a == 0 for a in r):
                r[rng.randrange(V)] = 1.0
        llb, lub = [], []
        for r in A:
            ax = float(sum(Fraction(a) * Fraction(v) for a, v in zip(r, x)))
            k = rng.choice(["nb", "ab", "eq", "ap", "free"] + (["pp", "nn"] if kind == "direct" and rng.random() < 0.15 else []))
            d = rng.choice([0.0, 0.125, 1.0, tol or 0.5])
            w = rng.choice([0.25, 1.0])
            side = rng.choice([-1, 0, 1])        # value below / inside / above the row's bounds
            if k == "eq":
                a = ax + side * d
                l, u = a, a
            elif k == "ab":
                l = ax + d if side < 0 else (ax - w / 2 if side == 0 else ax - d - w)
                u = l + w
            elif k == "nb":
                l, u = -INF, (ax - d if side > 0 else ax + d)
            elif k == "ap":
                l, u = (ax + d if side < 0 else ax - d), INF
            elif k == "pp":
                l, u = INF, INF
            elif k == "nn":
                l, u = -INF, -INF
            else:
                l, u = -INF, INF
            llb.append(l)
            lub.append(u)
        lin = {"A": A, "lb": llb, "ub": lub}
    nl = None
    pass_cons = True
    if rng.random() < 0.6:
        n = rng.randint(1, 3)
        c, nlb, nub = [], [], []
        for _ in range(n):
            k = rng.choice(["nb", "ab", "eq", "ap", "free"] + (["pp", "nn"] if kind == "direct" and rng.random() < 0.15 else []))
            l, u = _bounds_of(k, rng)
            c.append(_position(l, u, rng.choice([0, 1, 2, 2, 3, 4, 5, 6]), rng, tol))
            nlb.append(l)
            nub.append(u)
        nl = {"c": c, "lb": nlb, "ub": nub}
        pass_cons = rng.random() < 0.9 or kind == "plan"
    tr = _rand_transform(rng, V, len(nl["c"]) if nl else 0)
    reuse = tr is not None and tr["var"] and lin is not None and rng.random() < 0.4
    return _base(x, lb, ub, kind=kind, lin=lin, nl=nl, pass_cons=pass_cons, tol=tol, tr=tr, reuse=reuse,
                 _tag="full" if full else ("plan" if kind == "plan" else "sampled"))


def _plan_case(rng):
    """End-to-end case: an evaluator step / optimizer step (scripted optimizer) / BasicOptimizer delivering one or more
    function results (single vectors and 2-D batches, some with failed evaluations) to "last" and "best" trackers."""
    c = _sampled_case(rng, kind="plan")
    level = rng.choice(["evalstep", "evalstep", "optstep", "optstep", "basic"])
    V = len(c["x"])
    n_more = rng.choice([0, 1, 2, 2, 3])
    pts = [list(c["x"])]
    more = []
    for _ in range(n_more):
        for _try in range(20):
            p = [_position(l, u, rng.choice([0, 1, 2, 2, 2, 3, 4, 5, 6]), rng, c["tol"]) for l, u in zip(c["lb"], c["ub"])]
            if all(max(abs(a - b) for a, b in zip(p, q)) >= 0.0625 for q in pts):
                break
        else:
            break
        pts.append(p)
        cv = None
        if c["nl"] is not None:
            cv = [_position(l, u, rng.choice([0, 1, 2, 2, 3, 4, 5, 6]), rng, c["tol"]) for l, u in zip(c["nl"]["lb"], c["nl"]["ub"])]
        more.append({"x": p, "c": cv, "obj": _dy(rng, -2, 2, 4), "fail": rng.random() < 0.12})
    n = len(pts)
    if level == "evalstep":
        calls = [list(range(n))]
    else:                      # the first call is always the start vector alone; the others are split at random
        calls, i = [[0]], 1
        while i < n:
            k = rng.randint(1, n - i)
            calls.append(list(range(i, i + k)))
            i += k
    tol = c["tol"]
    if level == "basic" and tol is None:
        tol = rng.choice([0.0, 1e-10, 0.125])
    c.update(level=level, more=more, calls=calls, obj0=_dy(rng, -2, 2, 4), fail0=rng.random() < 0.08,
             nd2=rng.random() < 0.5, tol=tol, basic_cfg=rng.choice(["validated", "dict"]), _tag="plan-" + level)
    return c


def gen_cases(tier, rng):
    yield from _pattern_cases(tier, rng)
    n_s, n_f, n_p = (2500, 150, 330) if tier == "quick" else (40000, 3000, 5000)
    for _ in range(n_s):
        yield _sampled_case(rng)
    for _ in range(n_f):
        yield _sampled_case(rng, full=True)
    for _ in range(n_p):
        yield _plan_case(rng)
    # create() asserts when constraint values are given but no non-linear constraints are configured
    for _ in range(5):
        c = _sampled_case(rng)
        c.update(nl={"c": [0.5], "lb": None, "ub": None}, pass_cons=True, tr=None, _tag="assert")
        yield c


# ---- running the real code --------------------------------------------------------
def _make_transforms(case):
    import numpy as np
    from ropt.transforms import OptModelTransforms, VariableScaler
    from ropt.transforms.base import NonLinearConstraintTransform

    class ConstraintScaler(NonLinearConstraintTransform):
        def __init__(self, scales):
            self._scales = scales

        def bounds_to_optimizer(self, lower_bounds, upper_bounds):
            return lower_bounds / self._scales, upper_bounds / self._scales

        def to_optimizer(self, constraints):
            return constraints / self._scales

        def from_optimizer(self, constraints):
            return constraints * self._scales

        def nonlinear_constraint_diffs_from_optimizer(self, lower_diffs, upper_diffs):
            return lower_diffs * self._scales, upper_diffs * self._scales

    tr = case["tr"]
    if tr is None:
        return None
    var = None
    if tr["var"]:
        var = VariableScaler(None if tr["scales"] is None else np.array(tr["scales"], dtype=float),
                             None if tr["offsets"] is None else np.array(tr["offsets"], dtype=float))
    nl = None if tr["nl_scales"] is None else ConstraintScaler(np.array(tr["nl_scales"], dtype=float))
    return OptModelTransforms(variables=var, nonlinear_constraints=nl)


def _validate_decoy(case, transforms):
    """The same scaler object first validates another configuration whose linear constraints have the same number of
    rows but other row scalings (a transforms object may serve several configurations one after the other)."""
    from ropt.config.enopt import EnOptConfig
    if not case.get("reuse") or transforms is None or transforms.variables is None or case["lin"] is None:
        return
    d = _config_dict(case)
    lin = case["lin"]
    d["linear_constraints"] = {"coefficients": [[a * (3.0 + i) for a in r] for i, r in enumerate(lin["A"])],
                               "lower_bounds": list(lin["lb"]), "upper_bounds": list(lin["ub"])}
    EnOptConfig.model_validate(d, context=transforms)


def _config_dict(case):
    d = {"variables": {"initial_values": list(case["x"]), "lower_bounds": list(case["lb"]),
                       "upper_bounds": list(case["ub"])}}
    if case["lin"] is not None:
        d["linear_constraints"] = {"coefficients": case["lin"]["A"], "lower_bounds": case["lin"]["lb"],
                                   "upper_bounds": case["lin"]["ub"]}
    if case["nl"] is not None and case["nl"]["lb"] is not None:
        d["nonlinear_constraints"] = {"lower_bounds": case["nl"]["lb"], "upper_bounds": case["nl"]["ub"]}
    return d


def _fl(a):
    return None if a is None else [float(v) for v in a]


def _info(ci):
    if ci is None:
        return None
    return {k: _fl(getattr(ci, k)) for k in
            ("bound_lower", "bound_upper", "bound_violation", "linear_lower", "linear_upper", "linear_violation",
             "nonlinear_lower", "nonlinear_upper", "nonlinear_violation")}


def _cfg_obs(config):
    lc, nc = config.linear_constraints, config.nonlinear_constraints
    return {"lb": _fl(config.variables.lower_bounds), "ub": _fl(config.variables.upper_bounds),
            "lin": None if lc is None else {"A": [_fl(r) for r in lc.coefficients], "lb": _fl(lc.lower_bounds),
                                            "ub": _fl(lc.upper_bounds)},
            "nl": None if nc is None else {"lb": _fl(nc.lower_bounds), "ub": _fl(nc.upper_bounds)}}


def _wrap(ci, y, c_opt):
    import numpy as np
    from ropt.results import FunctionEvaluations, FunctionResults, Functions, Realizations
    return FunctionResults(
        batch_id=None, metadata={},
        evaluations=FunctionEvaluations.create(variables=np.array(y), objectives=np.zeros((1, 1)),
                                               constraints=None if c_opt is None else np.array([c_opt])),
        realizations=Realizations(failed_realizations=np.array([False])),
        functions=Functions.create(weighted_objective=np.array(0.0), objectives=np.zeros(1),
                                   constraints=None if c_opt is None else np.array(c_opt)),
        constraint_info=ci)


def _run_direct(case):
    import numpy as np
    from ropt.config.enopt import EnOptConfig
    from ropt.plugins.plan._utils import _violates_constraint
    from ropt.results import ConstraintInfo
    transforms = _make_transforms(case)
    _validate_decoy(case, transforms)
    config = EnOptConfig.model_validate(_config_dict(case), context=transforms)
    x = np.array(case["x"], dtype=float)
    y = x if transforms is None or transforms.variables is None else transforms.variables.to_optimizer(x)
    c_opt = None
    if case["nl"] is not None and case["pass_cons"]:
        c_opt = np.array(case["nl"]["c"], dtype=float)
        if transforms is not None and transforms.nonlinear_constraints is not None:
            c_opt = transforms.nonlinear_constraints.to_optimizer(c_opt)
    obs = {"cfg": _cfg_obs(config), "y": _fl(y), "c_opt": _fl(c_opt), "err": False, "info": None, "violates": False,
           "tr": None}
    try:
        ci = ConstraintInfo.create(config, y, c_opt)
    except AssertionError:
        obs["err"] = True
        return obs
    obs["info"] = _info(ci)
    obs["violates"] = bool(_violates_constraint(_wrap(ci, y, c_opt), case["tol"]))
    if transforms is not None:
        ci_user = None if ci is None else ci.transform_from_optimizer(transforms)
        eq = None if transforms.variables is None else getattr(transforms.variables, "_equation_scaling", None)
        obs["tr"] = {"eq": _fl(eq), "info_user": _info(ci_user),
                     "violates_user": bool(_violates_constraint(_wrap(ci_user, x, None), case["tol"]))}
        # the same object transformed a second time, and the source object after both transformations
        again = None if ci is None else ci.transform_from_optimizer(transforms)
        obs["tr"]["again_same"] = _info(again) == obs["tr"]["info_user"]
        obs["tr"]["source_unchanged"] = _info(ci) == obs["info"]
    return obs


def _plan_points(case):
    """User-domain points of an end-to-end case with their constraint values, objective and failure flag."""
    nl = case["nl"]
    pts = [{"x": case["x"], "c": None if nl is None else nl["c"], "obj": case.get("obj0", 0.0),
            "fail": case.get("fail0", False)}]
    return pts + list(case.get("more", []))


def _run_plan(case):
    import numpy as np
    from ropt.config.enopt import EnOptConfig
    from ropt.enums import EventType
    from ropt.evaluator import EvaluatorResult
    from ropt.plan import BasicOptimizer, OptimizerContext, Plan
    from ropt.plugins import PluginManager
    from ropt.plugins.optimizer.base import Optimizer, OptimizerPlugin
    from ropt.plugins.plan._utils import _violates_constraint
    from ropt.results import FunctionResults
    transforms = _make_transforms(case)
    _validate_decoy(case, transforms)
    nl, level = case["nl"], case.get("level", "evalstep")
    pts = _plan_points(case)
    X = np.array([p["x"] for p in pts], dtype=float)
    calls = case.get("calls", [[0]])
    to_opt = (lambda a: a) if transforms is None or transforms.variables is None else transforms.variables.to_optimizer

    def evaluator(variables, context):
        n = variables.shape[0]
        objs = np.zeros((n, 1))
        cons = None if nl is None else np.zeros((n, len(nl["c"])))
        for i in range(n):
            k = int(np.argmin(np.max(np.abs(X - variables[i]), axis=1)))
            objs[i, 0] = np.nan if pts[k]["fail"] else pts[k]["obj"]
            if cons is not None:
                cons[i] = pts[k]["c"]
        return EvaluatorResult(objectives=objs, constraints=cons)

    class Scripted(Optimizer):
        def __init__(self, config, optimizer_callback):
            self._cb = optimizer_callback

        def start(self, initial_values):
            self._cb(initial_values, return_functions=True, return_gradients=False)
            for idx in calls[1:]:
                y = to_opt(X[idx])
                self._cb(y[0] if len(idx) == 1 and not case.get("nd2") else y, return_functions=True, return_gradients=False)

        @property
        def allow_nan(self):
            return False

        @property
        def is_parallel(self):
            return True

    class ScriptedPlugin(OptimizerPlugin):
        def create(self, config, optimizer_callback):
            return Scripted(config, optimizer_callback)

        def is_supported(self, method):
            return method.lower() == "scripted"

    user, opt, seen = [], [], {}

    def observer(event):
        res = event.data["results"]
        user.extend(res)
        opt.extend(event.data.get("transformed_results", res))
        seen["config"] = event.config

    cfg = _config_dict(case)
    cfg["optimizer"] = {"method": "scripted"}
    kept_last = kept_best = None
    if level == "basic":
        # the configuration is given as a dict, or validated beforehand with the transforms as context
        if case.get("basic_cfg", "validated") == "validated":
            cfg = EnOptConfig.model_validate(cfg, context=transforms)
        bo = BasicOptimizer(cfg, evaluator, transforms=transforms, constraint_tolerance=case["tol"])
        ctx = bo._optimizer_context            # noqa: SLF001  (no public way to add plug-ins / observers of raw events)
        ctx.plugin_manager.add_plugin("optimizer", "scripted", ScriptedPlugin())
        ctx.add_observer(EventType.FINISHED_EVALUATION, observer)
        bo.run()
        kept_best = bo.results
        has_last, has_best = False, True
    else:
        pm = PluginManager()
        pm.add_plugin("optimizer", "scripted", ScriptedPlugin())
        context = OptimizerContext(evaluator=evaluator, plugin_manager=pm)
        context.add_observer(EventType.FINISHED_EVALUATION, observer)
        plan = Plan(context)
        step = plan.add_step("evaluator" if level == "evalstep" else "optimizer")
        t_last = plan.add_handler("tracker", what="last", constraint_tolerance=case["tol"], sources={step})
        t_best = plan.add_handler("tracker", what="best", constraint_tolerance=case["tol"], sources={step})
        kw = {}
        if level == "evalstep" and len(pts) > 1:
            kw["variables"] = to_opt(X)        # the step takes explicit vectors in the optimizer domain (C11 finding F11)
        plan.run_step(step, config=cfg, transforms=transforms, **kw)
        kept_last, kept_best = plan.get(t_last, "results"), plan.get(t_best, "results")
        has_last, has_best = True, True

    def index_of(obj):
        if obj is None:
            return None
        hits = [i for i, r in enumerate(user) if r is obj]
        return hits[0] if hits else -1

    eq = None if transforms is None or transforms.variables is None else getattr(transforms.variables, "_equation_scaling", None)
    items = []
    for item, usr in zip(opt, user):
        assert isinstance(item, FunctionResults)
        f = item.functions
        c_opt = None if f is None or f.constraints is None else f.constraints
        it = {"y": _fl(item.evaluations.variables), "c_opt": _fl(c_opt), "info": _info(item.constraint_info),
              "violates": bool(_violates_constraint(item, case["tol"])), "has_fun": f is not None,
              "obj": None if f is None else float(f.weighted_objective), "tr": None}
        if transforms is not None:
            it["tr"] = {"eq": _fl(eq), "info_user": _info(usr.constraint_info),
                        "violates_user": bool(_violates_constraint(usr, case["tol"])),
                        "x_user": _fl(usr.evaluations.variables)}
        items.append(it)
    first = items[0]
    obs = {"cfg": _cfg_obs(seen["config"]), "y": first["y"], "c_opt": first["c_opt"], "err": False, "info": first["info"],
           "violates": first["violates"], "tr": first["tr"], "items": items, "has_last": has_last, "has_best": has_best,
           "kept_last": index_of(kept_last), "kept_best": index_of(kept_best)}
    return obs


def run_impl(case):
    import warnings
    warnings.simplefilter("ignore")
    return _run_plan(case) if case["kind"] == "plan" else _run_direct(case)


# ---- Gallina printing -----------------------------------------------------------------
def _opt(x, f):
    return "None" if x is None else f"(Some {f(x)})"


def _fam_term(info, name):
    if info is None or info.get(name + "_lower") is None:
        return "None"
    v = info.get(name + "_violation")
    return (f"(Some (fam {cq.ers(info[name + '_lower'])} {cq.ers(info[name + '_upper'])} "
            f"{cq.ers(v if v is not None else [])}))")


def _info_term(info):
    if info is None:
        return "None"
    return f"(Some (info {_fam_term(info, 'bound')} {_fam_term(info, 'linear')} {_fam_term(info, 'nonlinear')}))"


def _cfg_term(lb, ub, lin, nl):
    lt = "None" if lin is None else f"(Some (lin {cq.qmat(lin['A'])} {cq.ers(lin['lb'])} {cq.ers(lin['ub'])}))"
    nt = "None" if nl is None or nl["lb"] is None else f"(Some ({cq.ers(nl['lb'])}, {cq.ers(nl['ub'])}))"
    return f"(cfg {cq.ers(lb)} {cq.ers(ub)} {lt} {nt})"


def _finite(vals):
    out = []
    for v in vals:
        if v is None:
            continue
        if isinstance(v, (list, tuple)):
            out += _finite(v)
        elif isinstance(v, dict):
            out += _finite(v.values())
        elif isinstance(v, (int, float)) and not isinstance(v, bool) and math.isfinite(v):
            out.append(abs(float(v)))
    return out


def _scale(case, obs):
    return max([1.0] + _finite([case["x"], case["lb"], case["ub"], case["lin"], case["nl"], case["tr"], obs["cfg"],
                                obs["y"], obs["c_opt"], case.get("more"), [(i["y"], i["c_opt"]) for i in obs.get("items", [])]]))


def _rcase_term(case, obs, S, point, item):
    """One function result: `item` = what the implementation reported for it, `point` = its user-domain inputs."""
    oc = obs["cfg"]
    cfg = _cfg_term(oc["lb"], oc["ub"], oc["lin"], oc["nl"])
    trt = "None"
    if item["tr"] is not None:
        tr = case["tr"]
        ucons = point["c"] if case["nl"] is not None and item["c_opt"] is not None else None
        ucfg = _cfg_term(case["lb"], case["ub"], case["lin"], case["nl"])
        trt = ("(Some (Build_trpart " + " ".join([
            _opt(tr["scales"] if tr["var"] else None, cq.qs), _opt(item["tr"]["eq"], cq.qs), _opt(tr["nl_scales"], cq.qs),
            _info_term(item["tr"]["info_user"]), cq.b(item["tr"]["violates_user"]), ucfg, cq.qs(point["x"]),
            _opt(ucons, cq.qs)]) + "))")
    return ("(Build_rcase " + " ".join([
        cq.q(S), cfg, cq.qs(item["y"]), _opt(item["c_opt"], cq.qs), _opt(case["tol"], cq.q), cq.b(item.get("err", False)),
        _info_term(item["info"]), cq.b(item["violates"]), trt]) + ")")


def _onat(i):
    return "None" if i is None else f"(Some {cq.nat(i)})"


def coq_case(case, obs):
    S = _scale(case, obs)
    if case["kind"] != "plan":
        main = {"y": obs["y"], "c_opt": obs["c_opt"], "info": obs["info"], "violates": obs["violates"], "tr": obs["tr"],
                "err": obs["err"]}
        point = {"x": case["x"], "c": None if case["nl"] is None else case["nl"]["c"]}
        return f"(Build_case {_rcase_term(case, obs, S, point, main)} [] None)"
    pts, items = _plan_points(case), obs["items"]
    terms = [_rcase_term(case, obs, S, p, it) for p, it in zip(pts, items)]
    # an index the harness could not resolve (-1) is printed as an impossible index: the checker rejects it
    fix = lambda i: len(items) + 7 if i == -1 else i  # noqa: E731
    trk = ("(Some (Build_trk " + " ".join([
        cq.lst(cq.b(it["has_fun"]) for it in items), cq.lst(_opt(it["obj"], cq.q) for it in items),
        cq.b(obs["has_last"]), _onat(fix(obs["kept_last"])), cq.b(obs["has_best"]), _onat(fix(obs["kept_best"]))]) + "))")
    return f"(Build_case {terms[0]} {cq.lst(terms[1:])} {trk})"


# ---- the property evaluated directly on the implementation's output -----------------------
def _F(v):
    return v if isinstance(v, float) and math.isinf(v) else Fraction(v)


def _sub(a, b):
    """a - b over extended reals (a finite)."""
    if isinstance(b, float) and math.isinf(b):
        return -b
    return a - b


def _expected_violation(v, l, u):
    """max(lower - value, value - upper, 0) over extended reals."""
    cands = [Fraction(0)]
    if isinstance(l, float):          # infinite lower bound
        if l > 0:
            return INF
    else:
        cands.append(l - v)
    if isinstance(u, float):          # infinite upper bound
        if u < 0:
            return INF
    else:
        cands.append(v - u)
    return max(cands)


def _same(got, exp, S):
    if isinstance(exp, float) and math.isinf(exp):
        return got == exp
    if math.isinf(got) or math.isnan(got):
        return False
    return abs(Fraction(got) - exp) <= Fraction(1, 10**12) * Fraction(S) + Fraction(1, 10**9) * abs(exp)


def _family_violation(name, info, vals, lb, ub, S):
    lo, up, vi = info.get(name + "_lower"), info.get(name + "_upper"), info.get(name + "_violation")
    if lo is None or up is None or vi is None:
        return {"clause": f"{name}-info-missing", "detail": "differences/violations not reported"}
    if not (len(lo) == len(up) == len(vi) == len(vals)):
        return {"clause": f"{name}-shape", "detail": [len(lo), len(up), len(vi), len(vals)]}
    for i, v in enumerate(vals):
        v, l, u = Fraction(v), _F(lb[i]), _F(ub[i])
        if not _same(lo[i], _sub(v, l), S):
            return {"clause": f"{name}-lower-difference", "detail": {"index": i, "got": lo[i], "value": float(v), "bound": lb[i]}}
        if not _same(up[i], _sub(v, u), S):
            return {"clause": f"{name}-upper-difference", "detail": {"index": i, "got": up[i], "value": float(v), "bound": ub[i]}}
        exp = _expected_violation(v, l, u)
        if not _same(vi[i], exp, S):
            return {"clause": f"{name}-violation-formula",
                    "detail": {"index": i, "got": vi[i], "expected": float(exp), "value": float(v), "lower": lb[i], "upper": ub[i]}}
        # a value (clearly, i.e. beyond rounding) outside a finite bound must be reported with a positive violation
        margin = Fraction(S) / 10**9
        outside = (not isinstance(l, float) and v < l - margin) or (not isinstance(u, float) and v > u + margin)
        if outside and not vi[i] > 0:
            return {"clause": f"{name}-outside-not-positive", "detail": {"index": i, "got": vi[i]}}
    return None


def _check_info(info, lb, ub, lin, nl_vals, nl_lb, nl_ub, x, S):
    """Property predicate for one ConstraintInfo against bounds/values given in the same domain."""
    want_b = any(math.isfinite(v) for v in list(lb) + list(ub))
    want_l = lin is not None
    want_n = nl_vals is not None
    if info is None:
        if want_b or want_l or want_n:
            return {"clause": "no-constraint-info", "detail": "create returned None although constraints exist"}
        return None
    if want_b or info.get("bound_lower") is not None:
        if not want_b:
            return None if all(math.isinf(v) for v in info["bound_lower"] + info["bound_upper"]) else \
                {"clause": "bound-info-unexpected", "detail": info["bound_lower"]}
        v = _family_violation("bound", info, x, lb, ub, S)
        if v:
            return v
    if want_l:
        ax = [sum(Fraction(a) * Fraction(xi) for a, xi in zip(r, x)) for r in lin["A"]]
        v = _family_violation("linear", info, ax, lin["lb"], lin["ub"], S)
        if v:
            return v
    if want_n:
        v = _family_violation("nonlinear", info, nl_vals, nl_lb, nl_ub, S)
        if v:
            return v
    return None


def _any_exceeds(info, tol):
    if info is None or tol is None:
        return False
    return any(v > tol for k in ("bound_violation", "linear_violation", "nonlinear_violation")
               for v in (info.get(k) or []))


def _oracle_result(case, obs, S, point, item, have_cons_cfg):
    """Property predicate for one function result (optimizer-domain info, and the user-domain one when transformed)."""
    oc = obs["cfg"]
    v = _check_info(item["info"], oc["lb"], oc["ub"], oc["lin"], item["c_opt"],
                    None if oc["nl"] is None else oc["nl"]["lb"], None if oc["nl"] is None else oc["nl"]["ub"],
                    item["y"], S)
    if v:
        return v
    if item["violates"] != _any_exceeds(item["info"], case["tol"]):
        return {"clause": "feasible-iff-violations-within-tolerance",
                "detail": {"verdict_infeasible": item["violates"], "tolerance": case["tol"], "info": item["info"]}}
    if item["tr"] is not None:
        nl = case["nl"]
        have_c = nl is not None and item["c_opt"] is not None
        v = _check_info(item["tr"]["info_user"], case["lb"], case["ub"], case["lin"],
                        point["c"] if have_c else None, nl["lb"] if have_c else None, nl["ub"] if have_c else None,
                        point["x"], S)
        if v:
            v["clause"] = "user-domain-" + v["clause"]
            return v
        if item["tr"]["violates_user"] != _any_exceeds(item["tr"]["info_user"], case["tol"]):
            return {"clause": "user-domain-feasible-iff-violations-within-tolerance", "detail": item["tr"]}
        if item["tr"].get("again_same") is False:
            return {"clause": "transform-not-repeatable", "detail": "a second transform_from_optimizer of the same object differs"}
        if item["tr"].get("source_unchanged") is False:
            return {"clause": "transform-modified-its-source", "detail": "the optimizer-domain ConstraintInfo changed"}
    return None


def _expected_tracked(items, tol):
    """(last, best) indices a tracker must retain: only results whose every violation is within the tolerance."""
    last, best, best_obj = None, None, None
    for i, it in enumerate(items):
        if not it["has_fun"] or _any_exceeds(it["info"], tol):
            continue
        last = i
        o = it["obj"]
        if o is None or math.isnan(o):
            continue
        if best is None or o < best_obj:
            best, best_obj = i, o
    return last, best


def oracle(case, obs):
    if obs["err"]:
        return None
    S = _scale(case, obs)
    if case["kind"] != "plan":
        main = {"y": obs["y"], "c_opt": obs["c_opt"], "info": obs["info"], "violates": obs["violates"], "tr": obs["tr"]}
        point = {"x": case["x"], "c": None if case["nl"] is None else case["nl"]["c"]}
        return _oracle_result(case, obs, S, point, main, True)
    pts, items = _plan_points(case), obs["items"]
    if len(items) > len(pts):
        return {"clause": "more-results-than-points", "detail": len(items)}
    for k, (p, it) in enumerate(zip(pts, items)):
        v = _oracle_result(case, obs, S, p, it, True)
        if v:
            v["detail"] = {"result": k, "detail": v.get("detail")}
            return v
    last, best = _expected_tracked(items, case["tol"])
    if obs["has_last"] and obs["kept_last"] != last:
        return {"clause": "tracker-last-retains-a-result-iff-its-violations-are-within-tolerance",
                "detail": {"retained": obs["kept_last"], "expected": last, "tolerance": case["tol"]}}
    if obs["has_best"] and obs["kept_best"] != best:
        return {"clause": "tracker-best-retains-a-result-iff-its-violations-are-within-tolerance",
                "detail": {"retained": obs["kept_best"], "expected": best, "tolerance": case["tol"]}}
    return None


def nontrivial(case, obs):
    info = obs["tr"]["info_user"] if obs.get("tr") else obs.get("info")
    if info is None:
        return False
    viol = [v for k in ("bound_violation", "linear_violation", "nonlinear_violation") for v in (info.get(k) or [])]
    infinite = any(math.isinf(v) for v in case["lb"] + case["ub"])
    return any(v > 0 for v in viol) or infinite


def features(case, obs):
    fin = [math.isfinite(v) for v in case["lb"]], [math.isfinite(v) for v in case["ub"]]
    mixed = (not all(fin[0])) and (not all(fin[1])) and (any(fin[0]) or any(fin[1]))
    tr = case["tr"]
    items = obs.get("items") or []
    extra = {}
    if case["kind"] == "plan":
        extra = {"level": case.get("level", "evalstep"), "results": len(items),
                 "results_without_functions": sum(1 for i in items if not i["has_fun"]),
                 "infeasible_results": sum(1 for i in items if i["violates"]),
                 "batched_call": any(len(c) > 1 for c in case.get("calls", [[0]])),
                 "kept_last": "none" if obs.get("kept_last") is None else ("last" if obs["kept_last"] == len(items) - 1 else "earlier"),
                 "kept_best": "none" if obs.get("kept_best") is None else ("first" if obs["kept_best"] == 0 else "later")}
    return {**extra, "kind": case["kind"], "V": len(case["x"]), "tag": case.get("_tag", "corpus"),
            "linear": 0 if case["lin"] is None else len(case["lin"]["A"]),
            "nonlinear": 0 if case["nl"] is None else len(case["nl"]["c"]),
            "mixed_infinite_both_sides": mixed,
            "transform": "none" if tr is None else "+".join(k for k in ("scales", "offsets", "nl_scales") if tr[k] is not None),
            "scaler_served_another_config_before": bool(case.get("reuse")), "tol": str(case["tol"]), "infeasible": bool(obs.get("violates")), "info": obs.get("info") is not None}


def known_signature(case, obs, violation):
    return None


def _drop_var(case, i):
    c = dict(case)
    for k in ("x", "lb", "ub"):
        c[k] = case[k][:i] + case[k][i + 1:]
    if case["lin"] is not None:
        A = [r[:i] + r[i + 1:] for r in case["lin"]["A"]]
        c["lin"] = {**case["lin"], "A": A}
    if case["tr"] is not None:
        t = dict(case["tr"])
        for k in ("scales", "offsets"):
            if t[k] is not None:
                t[k] = t[k][:i] + t[k][i + 1:]
        c["tr"] = t
    return c


def shrink(case):
    if case["tr"] is not None:
        yield {**case, "tr": None}
    if case.get("reuse"):
        yield {**case, "reuse": False}
    if case["lin"] is not None:
        yield {**case, "lin": None}
    if case["nl"] is not None and case["nl"]["lb"] is not None:
        yield {**case, "nl": None}
    if case["kind"] == "plan":
        more = case.get("more", [])
        if more:
            for i in range(len(more)):
                m2 = more[:i] + more[i + 1:]
                n = len(m2) + 1
                calls = [list(range(n))] if case.get("level", "evalstep") == "evalstep" else [[0]] + [[j] for j in range(1, n)]
                yield {**case, "more": m2, "calls": calls}
        else:
            yield {**case, "kind": "direct"}
    for i in range(len(case["x"])):
        if len(case["x"]) > 1 and not case.get("more"):
            c = _drop_var(case, i)
            if c["lin"] is None or all(any(a != 0 for a in r) for r in c["lin"]["A"]):
                yield c


def search(rng, case):
    for c in itertools.islice(_pattern_cases("quick", rng), 0, 800):
        yield c
    for _ in range(600):
        yield _sampled_case(rng)
    for _ in range(300):
        yield _plan_case(rng)


MANIFEST = {
    "level_text": ("Machine-checked Coq proof, for every vector length and every mix of finite and infinite bounds (extended reals), "
                   "that the executable model of ConstraintInfo (Model/ConstraintInfo.v) reports value-minus-bound differences for "
                   "variable bounds, linear constraints (A.x) and non-linear constraints, that every violation equals "
                   "max(lower - value, value - upper, 0), that bound information exists whenever one bound is finite so a value outside "
                   "a finite bound by more than the tolerance is always judged infeasible, that the feasibility verdict holds iff every "
                   "violation is within the tolerance (for every tolerance, None included), that a 'last' / 'best' tracker retains "
                   "exactly the last / the first minimal-objective delivered result whose violations are all within the tolerance and "
                   "nothing iff there is none, and that the back-transformed differences and recomputed violations of a scaled "
                   "problem equal the user-domain ones; the model is tied to the code on every run by an in-Coq correspondence against "
                   "the real ConstraintInfo.create / transform_from_optimizer / _violates_constraint and against evaluator steps, "
                   "optimizer steps and BasicOptimizer with trackers, "
                   "over all finite/-inf/+inf bound patterns for up to 3 variables plus sampled larger problems."),
    "level_note": ("Trusted: Coq kernel + VM; the Python driver that validates EnOptConfig objects, calls the real functions and prints "
                   "their outputs as exact rationals / ereal literals; NaN values are outside the model (assumption); the non-linear "
                   "constraint scaler is the user-written diagonal scaler of the test-suite; the equation scaling used by the linear "
                   "back-transform is read from the scaler object (its formula is verified by C11). The tracker model covers the results "
                   "of one step started with an empty tracker (histories across steps are C12's subject); the tolerance test is applied "
                   "to the optimizer-domain result, as the code documents. All theorems print 'Closed under the global context'."),
    "technique": "Coq proof (case analysis over extended reals + list induction on an executable Gallina model) + in-Coq differential correspondence with the real ConstraintInfo code, the tolerance test and the plan trackers",
    "design_ref": "DESIGN.md section 4, C13",
}
