"""C16 -- runs are reproducible from configuration and seed alone.

Every case is one configuration (samplers of every built-in method, shared or not, one to three samplers,
with or without explicit options, filters, estimators, masks, slsqp / l-bfgs-b / nelder-mead /
differential_evolution with an explicit seed option) together with a WORKLOAD: an optimizer step followed by
a gradient probe (so that every configuration, also the gradient-free ones, draws perturbations); an
evaluator step before the optimizer step; optimizer step - evaluator step - the same optimizer step again
(the two optimizer steps must be identical within the run); an outer optimization with a nested plan that
shares the one configuration object.  The workload is run (a) in a fresh interpreter with PYTHONHASHSEED=0
(reference) and once more in that interpreter, (b) in a second fresh interpreter with another PYTHONHASHSEED, and
(c) in that second interpreter under a set of schedules: after other, different runs (explicit sampler options where
the run under test relies on defaults and vice versa, evaluator steps, merely constructed evaluators); with
new or reused PluginManager / OptimizerContext / Plan + step objects / the same validated EnOptConfig
object; with complete other runs executed INSIDE the evaluator of the run under test (same context); with
NumPy's legacy global generator and the random_state of the scipy.stats distributions reseeded and drawn
from before the run, between evaluations and inside the evaluator.

Recorded per run: the byte-exact sequence of evaluator requests (variables, realizations, perturbation
indices, active flags), evaluator results, FINISHED_EVALUATION results, gradient-probe results and the exit
codes (SHA-256 of the bytes; 60-bit prefixes go to Coq), and the number of touches that did not come from
the harness: accesses of the generator-like state (wrapped np.random.* entry points, wrapped scipy
check_random_state(None), fingerprints of mtrand._rand and of the distributions' random_state at every
evaluator entry / evaluation start / run end) and writes of the table-like state (module-level containers
and class attributes of every loaded ropt module, attributes of the cached plug-in instances, the
configuration object: fingerprinted at run start and run end).
Inside Coq the machine of Model/Rng.v is run on the recorded schedule and must give the observed trace,
exit code, touch count (0) and unchanged tables.  A run with another seed must perturb differently.
"""
from __future__ import annotations

import contextlib
import dataclasses
import hashlib
import json
import os
import subprocess
import sys

import coqio as cq

ID = "C16"
THEOREM_FILE = "Props/C16.v"
CHK_MODULE = "Check.Chk_C16"
CASE_TYPE = "Chk_C16.case"
CHECK_FN = "Chk_C16.check_case"
HEADER = "From Ropt Require Import Model.Rng."
SHARD_SIZE = 8
PARALLEL = True
CASE_TIMEOUT = 300
EXHAUSTIVE = {"quick": False, "thorough": False}

RULE = ("per case one configuration drawn from: optimizer in {slsqp, l-bfgs-b, nelder-mead, differential_evolution(seed option)}; 2-4 "
        "variables (optionally masked), 1-3 realizations, 2-4 perturbations; one to three samplers of every built-in method "
        "(norm, uniform, truncnorm, sobol, halton, lhs; shared or not; assigned per variable, possibly with -1 and with an unused "
        "sampler; with explicit options for half of the stats samplers); optional sort/cvar objective filter, "
        "mean/stddev estimators, merged realizations, integer, tuple or default seeds incl. the falsy seeds 0 and (0, n), the population "
        "optimizer's seed option given as `seed` or `rng` and with the value 0 in every third such configuration, parallel population "
        "evaluation, speculative gradients; and one workload of {optimizer step + gradient probe, "
        "evaluator step first, optimizer-evaluator-same optimizer step again, nested plan sharing the configuration object}.  The first "
        "32 configurations enumerate methods x sampler methods x workloads systematically.  Each configuration is run "
        "under every schedule of the tier (fresh interpreter with PYTHONHASHSEED=0 = reference, and a second run in it; fresh "
        "interpreter with another PYTHONHASHSEED; then in that interpreter: plain, after other different runs with new / reused PluginManager / reused OptimizerContext, the same EnOptConfig "
        "object run before, one configuration DICT run before on the same Plan/step with another seed (or other samplers and perturbation "
        "count) and then modified in place, a new default context (no manager argument) after another run registered private prioritized plug-ins on the "
        "default manager of its own context, the same Plan and step objects run before, an evaluator step and an unused EnsembleEvaluator on the same "
        "configuration object before, complete other runs inside the evaluator, generator-like state (np.random, scipy.stats "
        "distributions) reseeded and drawn from before the run, at every evaluation start and inside every evaluator call) and once more "
        "with another seed; twice (prioritized / appended) on a manager on which earlier runs resolved the bare method names before private "
        "sampler and estimator plug-ins for the same methods were registered, against a fresh manager with the same registrations; for the plain workload one BasicOptimizer object is additionally run twice.  Non-trivial = the reference made at least 3 evaluator calls of which at least 2 perturbed, and at least 8 "
        "schedules were compared; distinct = distinct configurations.")
ASSUMPTIONS = [
    "the evaluator supplied by the harness is a deterministic function of the request (checked: the replay machine reproduces the reference)",
    "population optimizers are given an explicit seed option (property quantifier)",
    "equality of SHA-256 digests is equality of byte strings; Coq compares 60-bit prefixes, the Python oracle the full digests",
    "foreign activity is represented by np.random.seed(j), np.random.random(n), <distribution>.random_state = RandomState(j) and complete other "
    "optimizations, at the three kinds of schedule points",
]
TRUSTED = [
    "the run-time monitor sees every access of the generator-like state made during a run (wrappers around the legacy np.random entry points and "
    "scipy's check_random_state, state fingerprints of numpy.random.mtrand._rand and of scipy.stats uniform/norm/truncnorm.random_state) and every "
    "write of the table-like state that survives to the end of the run (fingerprints of module-level containers and class attributes of all loaded "
    "ropt modules, of the attributes of the cached plug-in instances and of the configuration object)",
    "state hidden in CPython / NumPy / SciPy / LAPACK outside these fingerprints is outside the Coq model (PARTIAL); it is "
    "exercised only through the schedules (fresh interpreter, other hash seed, preceding and interleaved runs, reused objects)",
]

# explicit sampler options (valid SciPy arguments) - "other runs" use them while the run under test relies on the
# defaults and vice versa: options of one run must never leak into another
# (several values are falsy but valid and differ from the default: loc 0.0 of uniform, a 0.0 of truncnorm, scramble False)
SAMPLER_OPTIONS = {
    "norm": [{"scale": 0.5}, {"loc": 0.25}],
    "uniform": [{"loc": 0.0, "scale": 1.0}, {"scale": 1.0}],
    "truncnorm": [{"a": 0.0, "b": 0.75}, {"b": 0.25}],
    # scramble=False makes sobol/halton deterministic sequences that legitimately ignore the seed, and an unscrambled
    # Latin hypercube of few points has only a handful of outcomes: for such samplers "another seed, other
    # perturbations" is not claimed (_seed_clause_applies)
    "sobol": [{"bits": 28}, {"scramble": False}],
    "halton": [{"scramble": True}, {"scramble": False}],
    "lhs": [{"scramble": False}, {"strength": 1}],
}
METHODS = ["slsqp", "l-bfgs-b", "nelder-mead", "differential_evolution"]
SAMPLERS = ["norm", "uniform", "truncnorm", "sobol", "halton", "lhs"]
WORKLOADS = ["single", "eval-opt", "opt-eval-opt", "nested"]
HARNESS_DIR = os.path.dirname(os.path.dirname(os.path.abspath(__file__)))
N_QUICK, N_THOROUGH = 32, 240
# One BasicOptimizer object run twice (a context, a plan function and observers re-used by the second run()): requests,
# delivered results and exit code of both runs must be identical.  (Found while auditing: run() registered its observers again
# on every call, so the second run delivered every result twice -- repaired in /repo 522b7ae, fixed finding F15d.)
BASIC_OPTIMIZER_RERUN = True


# ---- generators -----------------------------------------------------------------------------------
def _rand_spec(rng, k):
    """k < 32 enumerates: optimizer method = k mod 4, first sampler method = k mod 6 (coprime cycles visit every pair within 12),
    workload = (k div 4) mod 4 shifted so that every method meets every workload, number of samplers 1/2/3 by k mod 5."""
    systematic = k < 32
    method = METHODS[k % 4] if systematic else rng.choice(METHODS + ["slsqp", "l-bfgs-b"])
    workload = WORKLOADS[(k // 4 + k) % 4] if systematic else rng.choice(WORKLOADS + ["single"])
    nvar = rng.randint(2, 4)
    nreal = rng.randint(1, 3)
    nsam = [1, 2, 1, 3, 2][k % 5] if systematic else rng.choice([1, 1, 2, 3])
    if nsam == 3:
        nvar = max(nvar, 3)
    samplers = [{"method": SAMPLERS[(k + i * (1 + k // 6)) % 6] if systematic else rng.choice(SAMPLERS), "shared": rng.random() < 0.4}
                for i in range(nsam)]
    for i, smp in enumerate(samplers):
        # explicit options: half of the stats samplers (their defaults are the region where options of other runs can leak), a
        # quarter of the others
        if rng.random() < (0.5 if smp["method"] in ("uniform", "truncnorm", "norm") else 0.25):
            smp["options"] = SAMPLER_OPTIONS[smp["method"]][(k + i) % 2]
    idx = None
    if nsam >= 2:
        used = list(range(nsam))
        if nsam == 3 and rng.random() < 0.4:
            used.remove(rng.choice([0, 1]))     # a sampler that is configured but has no variable, before one in use
        idx = [rng.choice(used) for _ in range(nvar)]
        order = list(reversed(used))            # the highest index appears first: calling order is not the sorted order
        idx[:len(order)] = order
        if rng.random() < 0.3 and nvar > len(order):
            idx[rng.randrange(len(order), nvar)] = -1
    mask = None
    if rng.random() < 0.3:
        mask = [True] * nvar
        mask[rng.randrange(nvar)] = False
    spec = {
        "method": method, "workload": workload, "nvar": nvar, "nreal": nreal, "npert": rng.randint(2, 4),
        # int seed, tuple seed (two different elements), no seed at all (the documented default seed is part of the
        # configuration), and the falsy-but-valid seeds 0 and (0, n)
        "seed": (None if k % 7 == 5 else 0 if k % 7 == 1 else [0, rng.randrange(50, 100)] if k % 7 == 6 else
                 rng.choice([rng.randrange(1, 10 ** 6), [rng.randrange(1, 50), rng.randrange(50, 100)]])),
        "samplers": samplers, "sampler_idx": idx, "mask": mask,
        "filter": rng.choice([None, None, "sort-objective", "cvar-objective"]) if nreal == 3 else None,
        "estimator": rng.choice([None, "mean", "stddev"]) if nreal >= 2 else None,
        "merge": rng.random() < 0.2, "max_functions": rng.choice([4, 6, 8, 25]),
        # the seed option of the population optimizer: 0 is a valid seed (every third such configuration); SciPy's newer name
        # for the option is `rng`
        "de_seed": 0 if (k // 4) % 3 == 0 else rng.randrange(1, 1000), "de_seed_name": "rng" if (k // 4) % 4 == 1 else "seed",
        # the seed option may also be a generator OBJECT (the configuration then holds mutable state that no run may advance)
        "de_seed_object": {2: "generator", 3: "randomstate"}.get((k // 4) % 4) if systematic else rng.choice([None, None, "generator", "randomstate"]),
        "parallel": method == "differential_evolution" and workload != "nested" and (k // 4) % 3 == 1,
        "speculative": method in ("slsqp", "l-bfgs-b") and rng.random() < 0.3, "start": [rng.choice([-0.25, 0.0, 0.125, 0.5]) for _ in range(nvar)],
        "constraint": method in ("slsqp", "differential_evolution") and rng.random() < 0.4,
        "split": rng.random() < 0.2,
    }
    # a realization with a configured weight of exactly zero (its gradient column is never computed)
    spec["zero_weight"] = nreal >= 2 and not (nreal == 2 and spec["estimator"] == "stddev") and rng.random() < 0.5
    if spec["estimator"] == "stddev":
        spec["merge"] = False
    if method == "differential_evolution":
        spec["max_functions"] = rng.choice([12, 20])
    if workload == "nested":
        spec["max_functions"] = 8 if method == "differential_evolution" else 3
        spec["mask"] = None
    return spec


def _variant(spec, i):
    """A different configuration, used as 'another optimization executed earlier (or meanwhile) in the same process'.
    i mod 3 = 0: the SAME samplers, options, optimizer and dimensions, another seed and budget (shares everything that a
                 cache not keyed by the seed could share);
    i mod 3 = 1: another optimizer and other sampler methods, the SAME seed;
    i mod 3 = 2: the same sampler methods with explicit options where the run under test relies on the defaults and
                 vice versa, another seed."""
    v = json.loads(json.dumps(spec))
    kind = i % 3
    v["seed"] = spec["seed"] if kind == 1 else 7000 + i          # (kind 1 keeps the seed, also the default one)
    v["workload"] = "eval-opt" if kind == 2 else "single"
    if kind == 1:
        v["samplers"] = [{"method": SAMPLERS[(SAMPLERS.index(s["method"]) + 1 + i) % 6], "shared": not s["shared"]}
                         for s in spec["samplers"]]
        v["method"] = METHODS[(METHODS.index(spec["method"]) + 1) % 4]
        v["constraint"] = False
        v["max_functions"] = 12 if v["method"] == "differential_evolution" else 5
        return v
    if kind == 2:
        v["samplers"] = [({"method": x["method"], "shared": x["shared"]} if "options" in x else
                          {"method": x["method"], "shared": x["shared"], "options": SAMPLER_OPTIONS[x["method"]][(i // 3) % 2]})
                         for x in spec["samplers"]]
    if v["method"] == "differential_evolution":
        v["max_functions"] = 12
    else:
        v["max_functions"] = 5
    return v


def _sched(name, reuse="fresh", others=0, pre=(), between=(), inside=(), interleave=()):
    return {"name": name, "reuse": reuse, "others": others, "pre": list(pre), "between": list(between), "inside": list(inside),
            "interleave": list(interleave)}


def _schedules(tier, rng):
    r = rng.randrange
    s = [
        _sched("inproc-plain"),
        _sched("after-others-new-objects", "fresh", 3),
        # the other run customised the default manager of its own context; the run under test uses a new default context
        _sched("after-other-run-customised-its-default-context", "default-custom", 2),
        dict(_sched("inproc-plain-default-context"), default_context=True),
        # the same dictionary object, modified in place between two runs of one Plan / step object
        _sched("same-dict-modified-in-place-seed", "dict-seed", 1),
        _sched("same-dict-modified-in-place-samplers", "dict-samplers", 1),
        _sched("after-others-reused-manager", "manager", 3),
        _sched("after-others-reused-context", "context", 3),
        # the SAME validated EnOptConfig object (and context) is run once before: a second run of one configuration
        # object must not continue any state of the first
        _sched("same-config-object-run-again", "config", 1),
        # the same Plan and the same step objects (and configuration object) are run once before
        _sched("same-plan-and-steps-run-again", "plan", 1),
        # an evaluator step and a merely constructed EnsembleEvaluator on the same configuration object come first
        _sched("evaluator-step-and-unused-evaluator-first", "config-eval", 1),
        # complete other optimizations run inside the evaluator of the run under test (same context and manager)
        _sched("other-runs-inside-evaluator", "context", 1, interleave=[1, 2, 4]),
        # foreign memory traffic: freed small blocks full of NaN before every evaluation and at the end of every evaluator call
        dict(_sched("heap-polluted-with-nan", "fresh", 1), pollute=True),
        _sched("reseed-before", "fresh", 0, pre=[r(1000), -3, 1000 + r(1000)]),
        _sched("reseed-between-and-inside", "fresh", 0, pre=[r(1000)], between=[r(1000), -2, 1000 + r(1000)],
               inside=[-1, r(1000), -5, 1000 + r(1000)]),
    ]
    if tier == "thorough":
        s += [
            _sched("same-seed-everywhere", "fresh", 0, pre=[5, 1005], between=[5], inside=[5, 1005]),
            _sched("draws-only", "fresh", 0, pre=[-7], between=[-1], inside=[-2]),
            _sched("after-others-reused-context-reseeded", "context", 3, pre=[r(1000)], between=[-1], inside=[1000 + r(1000)]),
            _sched("after-others-reused-manager-reseeded", "manager", 3, pre=[-2], between=[r(1000)], inside=[-3]),
            _sched("other-runs-inside-evaluator-every-call", "manager", 0, interleave=[0, 1, 2, 3, 4], inside=[r(1000)]),
            _sched("same-plan-after-others", "plan", 3, pre=[1000 + r(1000)]),
        ]
    return s


def gen_cases(tier, rng):
    n = N_QUICK if tier == "quick" else N_THOROUGH
    for k in range(n):
        yield {"spec": _rand_spec(rng, k), "schedules": _schedules(tier, rng), "hashseed": rng.randrange(1, 2 ** 31),
               "subprocess": True}


# ---- the run-time monitor of the process-persistent state ------------------------------------------
def _table_digest(obj, depth=0):
    """Stable description of a piece of table-like state.  Values by content (primitives, containers, arrays, generators,
    objects of ropt classes), everything else by type and identity."""
    import numpy as np
    if obj is None or isinstance(obj, (bool, int, float, str, bytes)):
        return repr(obj)
    if isinstance(obj, (np.random.Generator, np.random.RandomState)):
        st = obj.bit_generator.state if isinstance(obj, np.random.Generator) else obj.get_state(legacy=False)
        return "rng:" + hashlib.sha256(repr(st).encode()).hexdigest()[:16]
    if isinstance(obj, np.ndarray):
        return f"arr{obj.dtype}{obj.shape}:" + hashlib.sha256(np.ascontiguousarray(obj).tobytes()).hexdigest()[:16]
    if isinstance(obj, (np.generic,)):
        return repr(obj.item())
    if depth > 5:
        return f"{type(obj).__module__}.{type(obj).__qualname__}@{id(obj)}"
    if isinstance(obj, (list, tuple)):
        return type(obj).__name__ + "[" + ",".join(_table_digest(x, depth + 1) for x in obj) + "]"
    if isinstance(obj, (set, frozenset)):
        return "set{" + ",".join(sorted(_table_digest(x, depth + 1) for x in obj)) + "}"
    if isinstance(obj, dict):
        return "dict{" + ",".join(sorted(f"{k!r}:" + _table_digest(v, depth + 1) for k, v in obj.items())) + "}"
    cls = type(obj)
    if (cls.__module__ or "").startswith("ropt.") and hasattr(obj, "__dict__") and not isinstance(obj, type):
        extra = getattr(obj, "__pydantic_private__", None)
        return (f"{cls.__module__}.{cls.__qualname__}(" + _table_digest(dict(vars(obj)), depth + 1) +
                ("|" + _table_digest(extra, depth + 1) if extra else "") + ")")
    return f"{cls.__module__}.{cls.__qualname__}@{id(obj)}"


_SKIP_TYPES = None


def _class_cells(cls, prefix, cells):
    import functools
    import types
    global _SKIP_TYPES
    if _SKIP_TYPES is None:
        _SKIP_TYPES = (types.FunctionType, types.BuiltinFunctionType, types.MethodType, classmethod, staticmethod, property,
                       functools.cached_property, types.MemberDescriptorType, types.GetSetDescriptorType, type)
    for name, val in list(vars(cls).items()):
        if name.startswith("__") or name in ("_abc_impl",) or isinstance(val, _SKIP_TYPES):
            continue
        cells[f"{prefix}.{name}"] = _table_digest(val, 2)
    # the SET of attribute names (a run that adds a class attribute is a writer, whatever the value)
    cells[prefix + ".<names>"] = ",".join(sorted(n for n in vars(cls) if not n.startswith("__")))


def _table_cells(config=None):
    """cell name -> digest for: module-level containers and class attributes of every loaded ropt module, attributes of the
    plug-in instances every PluginManager shares, the configuration object."""
    import types
    cells = {}
    for modname, mod in sorted(sys.modules.items()):
        if mod is None or not (modname == "ropt" or modname.startswith("ropt.")):
            continue
        for name, val in list(vars(mod).items()):
            if name.startswith("__"):
                continue
            if isinstance(val, (dict, list, set)):
                cells[f"{modname}:{name}"] = _table_digest(val, 1)
            elif isinstance(val, type) and getattr(val, "__module__", None) == modname:
                _class_cells(val, f"{modname}:{val.__qualname__}", cells)
        cells[f"{modname}:<names>"] = ",".join(sorted(n for n, v in vars(mod).items()
                                                        if not n.startswith("__") and not isinstance(v, types.ModuleType)))
    try:
        from ropt.plugins import PluginManager
        pm = PluginManager()
        for ptype in ("optimizer", "sampler", "realization_filter", "function_estimator", "plan_handler", "plan_step"):
            for name, plugin in pm.plugins(ptype):
                cells[f"plugin:{ptype}/{name}"] = f"{type(plugin).__qualname__}@{id(plugin)}:" + _table_digest(dict(vars(plugin)), 1)
    except Exception as e:  # noqa: BLE001
        cells["plugin:<error>"] = type(e).__name__
    if config is not None:
        cells["config-object"] = _table_digest(config, 0)
    return cells


class _Monitor:
    """Counts accesses of the generator-like state (numpy.random.mtrand._rand, scipy.stats distribution random_state) and
    writes of the table-like state that were not made by the harness itself."""

    instance = None

    def __init__(self):
        import numpy as np
        self.np = np
        self.rand = np.random.mtrand._rand
        self.touches = []
        self.foreign = 0
        self.active = False
        self.expected = None
        self.tables = None
        self.last_tables = None
        self.watch_tables = True
        self.tables_enabled = True
        self.wrapped_crs = set()
        names = [n for n in dir(np.random.RandomState) if not n.startswith("_") and hasattr(np.random, n)]
        self.entry_points = len(names)
        for n in names:
            setattr(np.random, n, self._wrap(n, getattr(np.random, n)))
        self._wrap_check_random_state()
        from scipy.stats import norm, truncnorm, uniform
        self.dists = {"uniform": uniform, "norm": norm, "truncnorm": truncnorm}

    @classmethod
    def get(cls):
        if cls.instance is None:
            cls.instance = cls()
        return cls.instance

    def _wrap(self, name, f):
        mon = self

        def wrapper(*a, **k):
            if mon.active and not mon.foreign:
                mon.touches.append("np.random." + name)
            return f(*a, **k)
        wrapper.__name__ = name
        wrapper._c16_wrapped = True
        return wrapper

    def _wrap_check_random_state(self):
        """scipy modules bind check_random_state by name: wrap it in every loaded module that has it."""
        try:
            import scipy._lib._util as util
        except ImportError:
            return
        orig = getattr(util.check_random_state, "_c16_orig", util.check_random_state)
        mon = self
        np = self.np

        def check_random_state(seed):
            if mon.active and not mon.foreign and (seed is None or seed is np.random):
                mon.touches.append("scipy.check_random_state(None)")
            return orig(seed)
        check_random_state._c16_orig = orig
        for name, mod in list(sys.modules.items()):
            if name.startswith("scipy") and mod is not None and name not in self.wrapped_crs:
                if getattr(mod, "check_random_state", None) is orig:
                    setattr(mod, "check_random_state", check_random_state)
                    self.wrapped_crs.add(name)

    def _state(self, rs):
        st = rs.get_state(legacy=False)
        h = hashlib.sha256()
        h.update(st["state"]["key"].tobytes())
        h.update(repr((st["state"]["pos"], st["has_gauss"], float(st["gauss"]).hex())).encode())
        return h.hexdigest()

    def fingerprint(self):
        parts = [self._state(self.rand)]
        for name, d in self.dists.items():
            rs = d.random_state
            if rs is self.rand:
                parts.append(name + "=global")
            elif isinstance(rs, self.np.random.RandomState):
                parts.append(name + "=" + self._state(rs))
            else:
                parts.append(name + "=" + _table_digest(rs))
        return "|".join(parts)

    def begin_schedule(self):
        """The table state before anything of this schedule ran (the other runs that come first are not monitored one by
        one: whatever they write is found at the end of the run under test).  Taken per schedule, so that a verdict does not
        depend on what the worker process did before."""
        import ropt.ensemble_evaluator  # noqa: F401 - the modules the runs will use are loaded before the snapshot
        import ropt.plan  # noqa: F401
        import ropt.plugins.sampler.scipy  # noqa: F401
        with self.as_foreign(refresh=False):
            self.last_tables = _table_cells(None)

    def start(self, config=None, tables=True):
        self._wrap_check_random_state()
        self.touches = []
        self.config = config
        self.watch_tables = tables = tables and self.tables_enabled
        if tables:
            with self.as_foreign():
                # the table state at the end of the previous monitored run is the state this run starts from (nothing but
                # harness code ran in between, and whatever ropt did there is attributed to this run); only the
                # configuration object is new
                if self.last_tables is None:
                    self.last_tables = _table_cells(None)
                self.tables = dict(self.last_tables)
                self.tables.pop("config-object", None)
                if config is not None:
                    self.tables["config-object"] = _table_digest(config, 0)
        self.active = True
        self.expected = self.fingerprint()

    def check(self, where):
        fp = self.fingerprint()
        if fp != self.expected:
            self.touches.append("generator-state-changed-before-" + where)
            self.expected = fp

    def stop(self):
        self.check("run-end")
        self.active = False
        if self.watch_tables:
            with self.as_foreign(refresh=False):
                after = _table_cells(self.config)
            before = self.tables
            mods_before = {k.split(":", 1)[0] for k in before}
            for k in sorted(set(before) | set(after)):
                if k.split(":", 1)[0] not in mods_before and ":" in k:
                    continue                         # a module imported during the run: its initial state, not a write
                if before.get(k) != after.get(k):
                    self.touches.append("table-written:" + k)
            self.last_tables = after
            self.tables = None
        return list(self.touches)

    @contextlib.contextmanager
    def as_foreign(self, refresh=True):
        self.foreign += 1
        try:
            yield
        finally:
            self.foreign -= 1
            if refresh:
                self.expected = self.fingerprint()

    def do_foreign(self, ops, shift):
        """ops: 0 <= j < 1000 -> np.random.seed(j + shift); j >= 1000 -> every scipy.stats distribution used by ropt gets
        random_state = RandomState(j + shift); j < 0 -> np.random.random(-j).  Returns the ops performed."""
        done = []
        np = self.np
        if not ops:
            return done
        with self.as_foreign():
            for j in ops:
                if j >= 1000:
                    for d in self.dists.values():
                        d.random_state = np.random.RandomState(j + shift)
                    done.append(j + shift)
                elif j >= 0:
                    np.random.seed(j + shift)
                    done.append(j + shift)
                else:
                    np.random.random(-j)
                    done.append(j)
        return done


# ---- digests ----------------------------------------------------------------------------------------
def _blob(h, obj):
    import enum
    import numpy as np
    if obj is None:
        h.update(b"N;")
    elif isinstance(obj, np.ndarray):
        h.update(f"A{obj.dtype}{obj.shape};".encode())
        h.update(np.ascontiguousarray(obj).tobytes())
    elif isinstance(obj, (bool, np.bool_)):
        h.update(b"T;" if obj else b"F;")
    elif isinstance(obj, enum.Enum):
        h.update(f"E{type(obj).__name__}.{obj.name};".encode())
    elif isinstance(obj, (int, np.integer)):
        h.update(f"I{int(obj)};".encode())
    elif isinstance(obj, (float, np.floating)):
        h.update(f"R{float(obj).hex()};".encode())
    elif isinstance(obj, str):
        h.update(f"S{obj};".encode())
    elif isinstance(obj, (tuple, list)):
        h.update(f"L{len(obj)};".encode())
        for x in obj:
            _blob(h, x)
    elif isinstance(obj, dict):
        h.update(f"D{len(obj)};".encode())
        for k in sorted(obj, key=str):
            _blob(h, str(k))
            _blob(h, obj[k])
    elif dataclasses.is_dataclass(obj):
        h.update(f"C{type(obj).__name__};".encode())
        for f in dataclasses.fields(obj):
            if f.name != "metadata":
                h.update(f.name.encode())
                _blob(h, getattr(obj, f.name))
    else:
        raise TypeError(f"cannot digest {type(obj).__name__}")


def _digest(*objs):
    h = hashlib.sha256()
    for o in objs:
        _blob(h, o)
    return h.hexdigest()


def _zdig(hexd):
    return int(hexd[:15], 16)


# ---- the real runs ------------------------------------------------------------------------------------
def _config(spec):
    import numpy as np
    nvar, nreal = spec["nvar"], spec["nreal"]
    config = {
        "variables": {"initial_values": spec["start"], "lower_bounds": [-1.0] * nvar, "upper_bounds": [1.0] * nvar},
        "optimizer": {"method": spec["method"], "max_functions": spec["max_functions"],
                      "split_evaluations": bool(spec["split"])},
        "realizations": {"weights": [0.0 if spec.get("zero_weight") and r == 1 else 1.0 + 0.5 * r for r in range(nreal)]},
        "gradient": {"number_of_perturbations": spec["npert"],
                     "perturbation_magnitudes": 0.0625, "merge_realizations": bool(spec["merge"])},
        "samplers": [{"method": s["method"], "shared": s["shared"], **({"options": s["options"]} if "options" in s else {})}
                     for s in spec["samplers"]],
        "objectives": {"weights": [1.0, 0.5]},
    }
    if spec["seed"] is not None:
        config["gradient"]["seed"] = tuple(spec["seed"]) if isinstance(spec["seed"], list) else spec["seed"]
    if spec["mask"] is not None:
        config["variables"]["mask"] = spec["mask"]
    if spec["sampler_idx"] is not None:
        config["gradient"]["samplers"] = spec["sampler_idx"]
    if spec["method"] == "differential_evolution":
        seed_value = spec["de_seed"]
        if spec.get("de_seed_object") == "generator":
            seed_value = np.random.default_rng(spec["de_seed"])
        elif spec.get("de_seed_object") == "randomstate":
            seed_value = np.random.RandomState(spec["de_seed"])
        config["optimizer"]["options"] = {spec.get("de_seed_name", "seed"): seed_value, "popsize": 2, "maxiter": 3}
        if spec.get("parallel"):
            config["optimizer"]["parallel"] = True
    if spec.get("speculative"):
        config["optimizer"]["speculative"] = True
    if spec["constraint"]:
        config["nonlinear_constraints"] = {"lower_bounds": [-np.inf], "upper_bounds": [0.75]}
    if spec["filter"] == "sort-objective":
        config["realization_filters"] = [{"method": "sort-objective", "options": {"sort": [0], "first": 0, "last": 1}}]
        config["objectives"]["realization_filters"] = [0, -1]
    elif spec["filter"] == "cvar-objective":
        config["realization_filters"] = [{"method": "cvar-objective", "options": {"sort": [0], "percentile": 0.5}}]
        config["objectives"]["realization_filters"] = [0, -1]
    if spec["estimator"] is not None:
        config["function_estimators"] = [{"method": "mean"}, {"method": spec["estimator"]}]
        config["objectives"]["function_estimators"] = [0, 1]
    return config


def _evaluate(variables, ctx):
    """The deterministic evaluator: two objectives, optionally one constraint, per realization."""
    import numpy as np
    from ropt.evaluator import EvaluatorResult
    n = variables.shape[0]
    obj = np.zeros((n, 2))
    con = np.zeros((n, 1))
    for i, r in enumerate(ctx.realizations):
        x = variables[i]
        t = 0.25 + 0.125 * float(r)
        obj[i, 0] = float(np.sum((x - t) ** 2))
        obj[i, 1] = float(np.sum(np.abs(x + 0.5) ** 1.5)) + 0.0625 * float(r)
        con[i, 0] = float(np.sum(x))
    return EvaluatorResult(objectives=obj, constraints=con if ctx.config.nonlinear_constraints is not None else None)


def _pollute(spec):
    """Foreign memory traffic: allocate and free small float arrays of the shapes ropt's gradient code uses, filled with NaN
    (numpy keeps freed small blocks in per-size free lists, so the next uninitialised allocation of that size gets them)."""
    import numpy as np
    nvar, nreal, npert = spec["nvar"], spec["nreal"], spec["npert"]
    shapes = [(m, nreal) for m in range(1, nvar + 1)] + [(nreal, m) for m in range(1, nvar + 1)]
    shapes += [(nvar,), (nreal,), (npert,), (nreal, npert), (npert, nvar), (nreal, npert, nvar), (2, nreal), (1, nreal)]
    for _ in range(2):
        blocks = [np.full(shape, np.nan) for shape in shapes for _ in range(8)]
        del blocks


class _Session:
    """One PluginManager + OptimizerContext; evaluator and observers dispatch to the run in progress."""

    def __init__(self, manager=None, default=False):
        from ropt.enums import EventType
        from ropt.plan import OptimizerContext
        from ropt.plugins import PluginManager
        self.run = None
        if default:
            # no manager argument: the context makes its own default manager (what BasicOptimizer and most user code do)
            self.context = OptimizerContext(evaluator=lambda v, c: self.run.evaluate(v, c))
            self.manager = self.context.plugin_manager
        else:
            self.manager = PluginManager() if manager is None else manager
            self.context = OptimizerContext(evaluator=lambda v, c: self.run.evaluate(v, c), plugin_manager=self.manager)
        self.context.add_observer(EventType.START_EVALUATION, lambda e: self.run.on_start(e))
        self.context.add_observer(EventType.FINISHED_EVALUATION, lambda e: self.run.on_finished(e))


def _validated(spec):
    import warnings
    from ropt.config.enopt import EnOptConfig
    with warnings.catch_warnings():
        warnings.simplefilter("ignore")
        return EnOptConfig.model_validate(_config(spec))


class _Run:
    def __init__(self, spec, sched, mon):
        self.spec, self.sched, self.mon = spec, sched, mon
        self.entries, self.micro, self.pending = [], [], []
        self.pert = None
        self.calls = 0
        self.events = 0
        self.marks = []
        self.session = None

    def on_start(self, event):
        self.mon.check("evaluation-start")
        self.pending += self.mon.do_foreign(self.sched["between"], self.calls)
        if self.sched.get("pollute"):
            _pollute(self.spec)
            self.pending.append(-50)

    def evaluate(self, variables, ctx):
        import numpy as np
        self.mon.check("evaluator-entry")
        inside = self.mon.do_foreign(self.sched["inside"], 3 * self.calls)
        if self.calls in self.sched.get("interleave", ()):
            # a complete other optimization inside this evaluator call, through the same context and manager
            i = self.sched["interleave"].index(self.calls)
            other = _Run(_variant(self.spec, i), _QUIET, self.mon)
            with self.mon.as_foreign():
                other.execute(self.session, nested=True)
            self.session.run = self
            inside = inside + [-100 - i]
        self.micro += [self.pending, inside]
        self.pending = []
        self.calls += 1
        perturbed = ctx.perturbations is not None and bool(np.any(np.asarray(ctx.perturbations) >= 0))
        req = _digest(variables, ctx.realizations, ctx.perturbations, ctx.active_objectives, ctx.active_constraints)
        if perturbed and self.pert is None:
            self.pert = _digest(variables[np.asarray(ctx.perturbations) >= 0])
        with self.mon.as_foreign(refresh=False):      # the user's evaluator may do anything; ours is pure NumPy arithmetic
            result = _evaluate(variables, ctx)
        self.entries.append(["C", perturbed, req, _digest(result.objectives, result.constraints)])
        if self.sched.get("pollute"):
            _pollute(self.spec)
        return result

    def on_finished(self, event):
        self.mon.check("evaluation-end")
        if "results" in event.data:
            self._result("results-event", list(event.data["results"]))

    def _result(self, kind, payload):
        # the request digest of a results entry is its position (unique within the run: the replay machine's evaluator is a table)
        self.entries.append(["R", False, _digest(kind, self.events), _digest(payload)])
        self.micro += [[], []]
        self.events += 1

    def _mark(self):
        self.marks.append(len(self.entries))

    # -- the workload ---------------------------------------------------------------------------------
    def _workload(self, session, config, bundle):
        import numpy as np
        from ropt.ensemble_evaluator import EnsembleEvaluator
        from ropt.plan import Plan
        from ropt.results import FunctionResults
        kind = self.spec.get("workload", "single")
        plan = bundle.setdefault("plan", None) or Plan(session.context)
        bundle["plan"] = plan

        def step(name, kind_):
            if name not in bundle:
                bundle[name] = plan.add_step(kind_)
            return bundle[name]

        codes = []
        x0 = np.array(self.spec["start"], dtype=np.float64)
        if kind == "nested":
            # (the inner plan and its tracker are created per run: a tracker is meant to remember the best result of
            # everything its plan ran, which is state of the caller's plan, not of ropt)
            inner = Plan(session.context)
            istep = inner.add_step("optimizer")
            itrack = inner.add_handler("tracker", sources={istep})

            def inner_function(plan_, variables):
                plan_.run_step(istep, config=bundle["config"], variables=variables)
                res = inner.get(itrack, "results")
                return res if isinstance(res, FunctionResults) else None
            inner.add_function(inner_function)
            bundle["inner"] = inner
            bundle["config"] = config            # outer and inner share the ONE configuration object
            self._mark()
            codes.append(plan.run_step(step("opt", "optimizer"), config=config, nested_optimization=bundle["inner"]))
        else:
            if kind == "eval-opt":
                self._mark()
                codes.append(plan.run_step(step("eval", "evaluator"), config=config))
            self._mark()
            codes.append(plan.run_step(step("opt", "optimizer"), config=config))
            if kind == "opt-eval-opt":
                self._mark()
                codes.append(plan.run_step(step("eval", "evaluator"), config=config, variables=np.vstack([x0 + 0.125, x0 - 0.125])))
                self._mark()
                codes.append(plan.run_step(step("opt", "optimizer"), config=config))     # the same step object again
        # gradient probe: every configuration draws perturbations (function+gradient request, then a function request
        # followed by the gradient-only request that re-uses the cached function result) on one EnsembleEvaluator
        self._mark()
        if not plan.aborted:
            if isinstance(config, dict):
                from ropt.config.enopt import EnOptConfig
                config = EnOptConfig.model_validate(config)
            ee = EnsembleEvaluator(config, None, session.context.evaluator, session.manager)
            x1 = x0 + 0.0625
            for i, req in enumerate(((x0, True, True), (x1, True, False), (x1, False, True))):
                self.on_start(None)
                res = ee.calculate(req[0].copy(), compute_functions=req[1], compute_gradients=req[2])
                self.mon.check("probe-end")
                self._result("probe", list(res))
        self._mark()
        return codes

    def execute(self, session, config=None, bundle=None, nested=False):
        watch = self.sched is not _QUIET and self.sched.get("name") != "quiet"
        import warnings
        warnings.simplefilter("ignore")
        mon = self.mon
        prev = session.run
        session.run = self
        self.session = session
        if config is None:
            with mon.as_foreign() if nested or mon.active else contextlib.nullcontext():
                config = _validated(self.spec)
        if not nested:
            mon.start(config, tables=watch)
        codes = []
        try:
            if not nested:
                self.pending += mon.do_foreign(self.sched["pre"], 0)
            codes = self._workload(session, config, {} if bundle is None else bundle)
        finally:
            touches = [] if nested else mon.stop()
            session.run = prev
        code = codes[-1] if codes else None
        return {"name": self.sched["name"], "entries": self.entries, "micro": self.micro, "marks": self.marks,
                "exit": sum(int(getattr(c, "value", 99)) * 100 ** k for k, c in enumerate(codes)),
                "exit_name": "+".join(getattr(c, "name", str(c)) for c in codes),
                "touches": len(touches), "touch_names": sorted(set(touches))[:6], "pert": self.pert}


def _private_sampler_plugin():
    """A sampler plug-in that another run registers in ITS OWN PluginManager (prioritized, answering to every built-in
    method name).  Nothing of it may be visible to a run that uses another manager."""
    import numpy as np
    from ropt.plugins.sampler.base import Sampler, SamplerPlugin

    class OtherSampler(Sampler):
        def __init__(self, enopt_config, sampler_index, mask, rng):
            self._config, self._mask = enopt_config, mask

        def generate_samples(self):
            c = self._config
            out = np.full((c.realizations.weights.size, c.gradient.number_of_perturbations, c.variables.initial_values.size), 0.5)
            out[:, 1::2, :] = -0.25
            out[:, :, ::2] *= -1.5
            if self._mask is not None:
                out[..., ~self._mask] = 0.0
            return out

    class OtherSamplerPlugin(SamplerPlugin):
        def create(self, enopt_config, sampler_index, mask, rng):
            return OtherSampler(enopt_config, sampler_index, mask, rng)

        def is_supported(self, method):
            return method.lower() in SAMPLERS

    return OtherSamplerPlugin()


def _private_estimator_plugin():
    """A function-estimator plug-in answering to the built-in method names with visibly different values."""
    from ropt.plugins.function_estimator.default import DefaultFunctionEstimator, DefaultFunctionEstimatorPlugin

    class OtherEstimator(DefaultFunctionEstimator):
        def calculate_function(self, functions, weights):
            return 2.0 * super().calculate_function(functions, weights) + 0.125

        def calculate_gradient(self, functions, gradient, weights):
            return 2.0 * super().calculate_gradient(functions, gradient, weights)

    class OtherEstimatorPlugin(DefaultFunctionEstimatorPlugin):
        def create(self, enopt_config, estimator_index):
            return OtherEstimator(enopt_config, estimator_index)

    return OtherEstimatorPlugin()


def _manager_pairs(spec, mon):
    """'Regardless of whether plug-in managers are reused': a manager on which earlier runs have already resolved the bare
    method names of this configuration, and on which private plug-ins for the same methods are registered AFTERWARDS, must
    behave like a fresh manager holding the same plug-ins in the same order (registered before any lookup).  Once with
    prioritize=True (the private plug-ins take over) and once without (they stay behind the built-in ones)."""
    from ropt.plugins import PluginManager
    out = []
    for prioritize in (True, False):
        def register(manager):
            manager.add_plugin("sampler", "c16late", _private_sampler_plugin(), prioritize=prioritize)
            if spec["estimator"] is not None:
                manager.add_plugin("function_estimator", "c16late", _private_estimator_plugin(), prioritize=prioritize)
        name = "plug-ins-registered-" + ("prioritized" if prioritize else "appended")
        mon.tables_enabled = True
        mon.begin_schedule()
        fresh = PluginManager()
        register(fresh)
        a = _Run(spec, dict(_QUIET, name=name + "-on-fresh-manager"), mon).execute(_Session(fresh))
        reused = PluginManager()
        _Run(spec, _QUIET, mon).execute(_Session(reused))               # resolves every bare method name of the configuration
        _Run(_variant(spec, 0), _QUIET, mon).execute(_Session(reused))
        register(reused)
        b = _Run(spec, dict(_QUIET, name=name + "-on-reused-manager-after-lookups"), mon).execute(_Session(reused))
        out.append({"name": name, "a": a, "b": b})
    return out


_QUIET = {"name": "quiet", "reuse": "fresh", "others": 0, "pre": [], "between": [], "inside": [], "interleave": []}


def _run_schedule(spec, sched, mon, tables=True):
    from ropt.ensemble_evaluator import EnsembleEvaluator
    mon.tables_enabled = tables
    if tables:
        mon.begin_schedule()
    session = _Session()
    manager = session.manager
    quiet = dict(_QUIET, pre=sched["pre"][:1])
    reuse = sched["reuse"]
    if reuse in ("config", "plan", "config-eval"):
        shared = _validated(spec)
        bundle = {} if reuse == "plan" else None
        for i in range(sched["others"]):
            if reuse == "config-eval":
                # an evaluator step on the same configuration object, and an evaluator that is constructed but never used
                _Run(dict(spec, workload="eval-only"), quiet, mon).execute_eval_only(session, shared)
                EnsembleEvaluator(shared, None, session.context.evaluator, manager)
            else:
                _Run(spec, quiet, mon).execute(session, shared, bundle)
        for i in range(max(0, sched["others"] - 1)):      # (thorough) further, different runs through the same context
            _Run(_variant(spec, i), quiet, mon).execute(session)
        return _Run(spec, sched, mon).execute(session, shared, bundle)
    if reuse in ("dict-seed", "dict-samplers"):
        # one Plan, one optimizer step object, ONE configuration DICT: first run with another content, then the dict is
        # modified in place (seed; or sampler methods and number of perturbations) to the configuration under test
        before = json.loads(json.dumps(spec))
        if reuse == "dict-seed":
            before["seed"] = _other_seed(spec["seed"])
        else:
            before["samplers"] = [{"method": SAMPLERS[(SAMPLERS.index(x["method"]) + 2) % 6], "shared": x["shared"]} for x in spec["samplers"]]
            before["npert"] = spec["npert"] + 1
        d = _config(before)
        bundle = {}
        _Run(before, quiet, mon).execute(session, d, bundle)
        new = _config(spec)
        for key in list(d):
            if key not in new:
                del d[key]
        for key, val in new.items():
            if isinstance(val, dict) and isinstance(d.get(key), dict):
                d[key].clear()
                d[key].update(val)          # the nested dictionaries keep their identity as well
            else:
                d[key] = val
        return _Run(spec, sched, mon).execute(session, d, bundle)
    if reuse == "default-custom":
        # another run customises the DEFAULT manager of its own context (no manager argument anywhere); later runs with their
        # own new default contexts, selecting their methods by discovery (bare names), must not see any of it
        other = _Session(default=True)
        other.manager.add_plugin("sampler", "c16other", _private_sampler_plugin(), prioritize=True)
        other.manager.add_plugin("function_estimator", "c16other", _private_estimator_plugin(), prioritize=True)
        _Run(_variant(spec, 0), quiet, mon).execute(other)
        _Run(_variant(spec, 2), quiet, mon).execute(_Session(default=True))
        return _Run(spec, sched, mon).execute(_Session(default=True))
    for i in range(sched["others"]):
        if reuse == "fresh":
            session = _Session()
            if i == 0:      # this other run brings its own sampler plug-in, in its own manager
                session.manager.add_plugin("sampler", "c16other", _private_sampler_plugin(), prioritize=True)
        elif reuse == "manager":
            session = _Session(manager)
        _Run(_variant(spec, i), quiet, mon).execute(session)
    if reuse == "fresh":
        session = _Session(default=sched.get("default_context", False))
    elif reuse == "manager":
        session = _Session(manager)
    return _Run(spec, sched, mon).execute(session)


def _execute_eval_only(self, session, config):
    from ropt.plan import Plan
    prev, session.run, self.session = session.run, self, session
    self.mon.start(config)
    try:
        plan = Plan(session.context)
        plan.run_step(plan.add_step("evaluator"), config=config)
    finally:
        self.mon.stop()
        session.run = prev


_Run.execute_eval_only = _execute_eval_only


def _basic_optimizer_rerun(spec):
    """One BasicOptimizer object, run() twice: what the evaluator is asked and what set_results_callback delivers."""
    import warnings
    import numpy as np
    from ropt.plan import BasicOptimizer
    log = []

    def evaluator(variables, ctx):
        log.append(["C", _digest(variables, ctx.realizations, ctx.perturbations)])
        return _evaluate(variables, ctx)

    with warnings.catch_warnings():
        warnings.simplefilter("ignore")
        bo = BasicOptimizer(_config(spec), evaluator)
        bo.set_results_callback(lambda results: log.append(["R", _digest(list(results))]))
        bo.run()
        n = len(log)
        first, code1 = log[:n], int(bo.exit_code.value)
        bo.run()
        second, code2 = log[n:], int(bo.exit_code.value)
    return {"first": first, "second": second, "exit": [code1, code2]}


def _child(payload):
    """Entry point of a fresh interpreter: first the workload of the configuration, alone; then (reference interpreter) the same
    once more, or (second interpreter) every schedule of the case and the run with another seed."""
    mon = _Monitor.get()
    spec = payload["spec"]
    # the very first run of the interpreter is left alone: no table snapshot (taking one creates a PluginManager, which
    # would load the entry points before the run does)
    first = _run_schedule(spec, dict(_QUIET, name=payload["name"]), mon, tables=False)
    first["entry_points"] = mon.entry_points
    out = {"ref": first}
    if payload.get("again"):
        out["again"] = _run_schedule(spec, dict(_QUIET, name=payload["name"] + "-second-run"), mon)
    if payload.get("schedules") is not None:
        out.update(_in_process(spec, payload["schedules"], mon))
    return out


def _in_process(spec, schedules, mon):
    runs = []
    for k, sched in enumerate(schedules):
        r = _run_schedule(spec, sched, mon)
        r["g0"] = k + 1
        runs.append(r)
    other = json.loads(json.dumps(spec))
    other["seed"] = _other_seed(spec["seed"])
    oth = _run_schedule(other, dict(_QUIET, name="other-seed"), mon)
    return {"runs": runs, "other_seed": {"pert": oth["pert"], "touches": oth["touches"]}, "manager_pairs": _manager_pairs(spec, mon)}


def _fresh_start(spec, name, hashseed, again=False, schedules=None):
    code = ("import sys, json; sys.path.insert(0, %r); from common import use_repo_sources; use_repo_sources(); "
            "import props.C16 as m; out = m._child(json.loads(sys.argv[1])); sys.stdout.write('\\n@@C16@@' + json.dumps(out))" % HARNESS_DIR)
    env = dict(os.environ)
    env["PYTHONHASHSEED"] = str(hashseed)
    return subprocess.Popen([sys.executable, "-c", code, json.dumps({"spec": spec, "name": name, "again": again, "schedules": schedules})], stdin=subprocess.DEVNULL,
                            stdout=subprocess.PIPE, stderr=subprocess.PIPE, text=True, env=env)


def _fresh_finish(p):
    try:
        out, err = p.communicate(timeout=240)
        rc = p.returncode
    finally:
        if p.poll() is None:
            p.kill()
    if rc != 0 or "@@C16@@" not in out:
        raise RuntimeError("fresh interpreter failed: " + err[-1500:])
    return json.loads(out.rsplit("@@C16@@", 1)[1])


def _seed_clause_applies(spec):
    """'Changing only the seed changes the perturbations' is claimed when some free variable is perturbed by a sampler whose
    draw is continuous in the seed (not an unscrambled QMC sequence / Latin hypercube)."""
    idx, mask = spec["sampler_idx"], spec["mask"]
    for v in range(spec["nvar"]):
        if mask is not None and not mask[v]:
            continue
        k = 0 if idx is None else idx[v]
        if k < 0:
            continue
        smp = spec["samplers"][k]
        if not (smp["method"] in ("sobol", "halton", "lhs") and (smp.get("options") or {}).get("scramble", True) is False):
            return True
    return False


def _other_seed(seed):
    """A different seed: the next integer; for a tuple the same elements in the other order (different as a seed, equal under
    every symmetric reduction such as a sum); for the default seed an arbitrary explicit one."""
    if seed is None:
        return 12345
    if isinstance(seed, list):
        return [seed[1], seed[0]] if seed[0] != seed[1] else [seed[0] + 1, seed[1]]
    return seed + 1


def run_impl(case):
    """Everything runs in two fresh interpreters with explicit hash seeds (`./check` exports PYTHONHASHSEED only after its own
    interpreter has started, so this process and the pool workers run under an arbitrary hash seed; nothing that is compared
    is computed here, which keeps every verdict a function of the case alone and every replay reproducible):
    A (PYTHONHASHSEED=0): the workload alone = reference; the workload once more.
    B (the case's hash seed): the workload alone; then every schedule of the case, one after the other, in that interpreter;
      then the run with another seed."""
    spec = case["spec"]
    mon_points = None
    if case.get("subprocess", True):
        pa = _fresh_start(spec, "fresh-interpreter", 0, again=True)
        pb = _fresh_start(spec, "fresh-interpreter-other-hashseed", case["hashseed"], schedules=case["schedules"])
        try:
            a = _fresh_finish(pa)
            b = _fresh_finish(pb)
        except BaseException:
            for p in (pa, pb):
                if p.poll() is None:
                    p.kill()
            raise
        ref = a["ref"]
        runs = [b["ref"], a["again"]] + b["runs"]
        other_seed = b["other_seed"]
        pairs = b["manager_pairs"]
        mon_points = ref.get("entry_points")
    else:                                   # all in this process (development only)
        mon = _Monitor.get()
        ref = _run_schedule(spec, dict(_QUIET, name="inproc-reference"), mon)
        both = _in_process(spec, case["schedules"], mon)
        runs, other_seed, pairs = both["runs"], both["other_seed"], both["manager_pairs"]
        mon_points = mon.entry_points
    out = {"ref": ref, "runs": runs, "other_seed": other_seed, "manager_pairs": pairs, "monitor_entry_points": mon_points}
    if BASIC_OPTIMIZER_RERUN and spec.get("workload", "single") == "single":
        out["basic_rerun"] = _basic_optimizer_rerun(spec)
    return out


# ---- Gallina printer ------------------------------------------------------------------------------
def _trace_term(entries):
    return cq.lst(f"({cq.z(_zdig(e[2]))}, {cq.z(_zdig(e[3]))})" for e in entries)


def coq_case(case, obs):
    ref = obs["ref"]
    calls = cq.lst(f"({cq.b(e[1])}, {cq.z(_zdig(e[2]))}, {cq.z(_zdig(e[3]))})" for e in ref["entries"])
    runs = []
    for r in obs["runs"]:
        sched = cq.lst(cq.zs(m) for m in r["micro"])
        runs.append(f"(robs {sched} {int(r.get('g0', 0))} {_trace_term(r['entries'])} {int(r['exit'])} {int(r['touches'])})")
    if ref["pert"] is None or not _seed_clause_applies(case["spec"]):
        pert = "None"
    else:
        o = obs["other_seed"]["pert"]
        pert = f"(Some ({cq.z(_zdig(ref['pert']))}, {cq.z(_zdig(o) if o is not None else -1)}))"
    twice = []
    if case["spec"].get("workload") == "opt-eval-opt":
        for r in [ref] + obs["runs"]:
            seg = _segments(r)
            if len(seg) >= 3:
                twice.append("(" + cq.zs(_seg_digests(seg[0])) + ", " + cq.zs(_seg_digests(seg[2])) + ")")
    for mp in obs.get("manager_pairs", []):
        twice.append("(" + cq.zs(_seg_digests(mp["a"]["entries"]) + [mp["a"]["exit"]]) + ", " +
                     cq.zs(_seg_digests(mp["b"]["entries"]) + [mp["b"]["exit"]]) + ")")
    br = obs.get("basic_rerun")
    if br is not None:
        twice.append("(" + cq.zs([_zdig(e[1]) for e in br["first"]] + [br["exit"][0]]) + ", " +
                     cq.zs([_zdig(e[1]) for e in br["second"]] + [br["exit"][1]]) + ")")
    return f"(Build_case (scr {calls} {int(ref['exit'])}) {cq.nat(ref['touches'])} {cq.lst(runs)} {pert} {cq.lst(twice)})"


# ---- oracle: the property text on the recorded runs (no model) --------------------------------------
def _segments(run):
    m = run.get("marks") or []
    return [run["entries"][a:b] for a, b in zip(m, m[1:])]


def _seg_digests(seg):
    """What must repeat when a step is run twice: evaluator requests and all results (not the position labels of R entries)."""
    out = []
    for e in seg:
        if e[0] == "C":
            out.append(_zdig(e[2]))
        out.append(_zdig(e[3]))
    return out


def oracle(case, obs):
    ref = obs["ref"]
    for r in [ref] + obs["runs"]:
        if r["touches"]:
            clause = "table-state-written" if all(t.startswith("table-written") for t in r["touch_names"]) else "global-generator-touched"
            return {"clause": clause, "detail": {"schedule": r["name"], "by": r["touch_names"]}}
    if obs["other_seed"]["touches"]:
        return {"clause": "global-generator-touched", "detail": {"schedule": "other-seed"}}
    for r in obs["runs"]:
        a, b = ref["entries"], r["entries"]
        if [e[2:] for e in a] != [e[2:] for e in b]:
            k = next((i for i, (x, y) in enumerate(zip(a, b)) if x[2:] != y[2:]), min(len(a), len(b)))
            what = "length" if k >= min(len(a), len(b)) else ("request" if a[k][2] != b[k][2] else "result")
            kind = (a[k][0] if k < len(a) else b[k][0]) if what != "length" else "-"
            return {"clause": "trace-not-bit-identical", "detail": {"schedule": r["name"], "first_difference_at": k,
                                                                   "what": what, "entry_kind": kind,
                                                                   "lengths": [len(a), len(b)]}}
        if r["exit"] != ref["exit"]:
            return {"clause": "exit-code-differs", "detail": {"schedule": r["name"], "reference": ref["exit_name"], "got": r["exit_name"]}}
    # two runs of one configuration inside one run: the optimizer step that is executed twice (same step object, same
    # configuration object, same start) must make identical requests and deliver identical results both times
    if case["spec"].get("workload") == "opt-eval-opt":
        for r in [ref] + obs["runs"]:
            seg = _segments(r)
            if len(seg) >= 3:
                first = [(e[0], e[2] if e[0] == "C" else "", e[3]) for e in seg[0]]
                again = [(e[0], e[2] if e[0] == "C" else "", e[3]) for e in seg[2]]
                if first != again:
                    return {"clause": "same-step-run-twice-differs", "detail": {"schedule": r["name"], "lengths": [len(first), len(again)]}}
    for mp in obs.get("manager_pairs", []):
        for r in (mp["a"], mp["b"]):
            if r["touches"]:
                return {"clause": "table-state-written" if all(t.startswith("table-written") for t in r["touch_names"])
                        else "global-generator-touched", "detail": {"schedule": r["name"], "by": r["touch_names"]}}
        if _seg_digests(mp["a"]["entries"]) != _seg_digests(mp["b"]["entries"]) or mp["a"]["exit"] != mp["b"]["exit"]:
            return {"clause": "reused-manager-differs-from-fresh-manager",
                    "detail": {"registration": mp["name"], "lengths": [len(mp["a"]["entries"]), len(mp["b"]["entries"])],
                               "exit": [mp["a"]["exit_name"], mp["b"]["exit_name"]]}}
    br = obs.get("basic_rerun")
    if br is not None and (br["first"] != br["second"] or br["exit"][0] != br["exit"][1]):
        return {"clause": "basic-optimizer-rerun-differs", "detail": {"lengths": [len(br["first"]), len(br["second"])], "exit": br["exit"]}}
    if ref["pert"] is not None and obs["other_seed"]["pert"] == ref["pert"] and _seed_clause_applies(case["spec"]):
        return {"clause": "seed-does-not-change-perturbations", "detail": {"seed": case["spec"]["seed"]}}
    if ref["pert"] is None:
        return {"clause": "no-perturbation-was-drawn", "detail": {"workload": case["spec"].get("workload")}}
    return None


def nontrivial(case, obs):
    calls = [e for e in obs["ref"]["entries"] if e[0] == "C"]
    return len(calls) >= 3 and sum(1 for e in calls if e[1]) >= 2 and len(obs["runs"]) >= 8


def features(case, obs):
    s = case["spec"]
    return {"method": s["method"], "workload": s.get("workload", "single"),
            "samplers": "+".join(x["method"] + ("*" if x["shared"] else "") + ("{opt}" if "options" in x else "") for x in s["samplers"]),
            "n_samplers": len(s["samplers"]),
            "unused_sampler": s["sampler_idx"] is not None and len(set(i for i in s["sampler_idx"] if i >= 0)) < len(s["samplers"]),
            "perturbed_calls": min(4, sum(1 for e in obs["ref"]["entries"] if e[0] == "C" and e[1])),
            "calls": min(40, 4 * (sum(1 for e in obs["ref"]["entries"] if e[0] == "C") // 4)),
            "filter": s["filter"], "estimator": s["estimator"], "mask": s["mask"] is not None,
            "exit": obs["ref"]["exit_name"], "schedules": len(obs["runs"]),
            "seed": ("default" if s["seed"] is None else ("tuple" if isinstance(s["seed"], list) else "int")) +
                    ("-with-0" if s["seed"] == 0 or (isinstance(s["seed"], list) and 0 in s["seed"]) else ""),
            "seed_clause": _seed_clause_applies(s),
            "de_seed": (s.get("de_seed_name", "seed") + ("=0" if s["de_seed"] == 0 else "=n") + ("/parallel" if s.get("parallel") else ""))
                       if s["method"] == "differential_evolution" else "-",
            "speculative": bool(s.get("speculative")), "zero_weight": bool(s.get("zero_weight")),
            "de_seed_object": s.get("de_seed_object") if s["method"] == "differential_evolution" else None, "manager_pairs": len(obs.get("manager_pairs", [])),
            "private_plugin_in_force": any(mp["a"]["pert"] != obs["ref"]["pert"] for mp in obs.get("manager_pairs", [])), "basic_optimizer_rerun": obs.get("basic_rerun") is not None}


def known_signature(case, obs, violation):
    return None


def shrink(case):
    if len(case["schedules"]) > 1:
        for k in range(len(case["schedules"])):
            yield {**case, "schedules": [case["schedules"][k]]}
    s = case["spec"]
    if s.get("workload", "single") != "single":
        yield {**case, "spec": {**s, "workload": "single"}}
    if len(s["samplers"]) > 1:
        yield {**case, "spec": {**s, "samplers": s["samplers"][:1], "sampler_idx": None}}
    for key, val in (("filter", None), ("estimator", None), ("mask", None), ("merge", False), ("split", False), ("constraint", False)):
        if s[key] not in (None, False):
            yield {**case, "spec": {**s, key: val}}


def search(rng, case):
    import random
    r = random.Random(rng.random())
    for k in range(16):
        yield {"spec": _rand_spec(r, k), "schedules": _schedules("quick", r), "hashseed": r.randrange(1, 2 ** 31), "subprocess": True}


MANIFEST = {
    "level_text": ("Machine-checked Coq proof of non-interference for an abstract machine of an optimization run (Model/Rng.v) whose process-"
                   "persistent state is split into generator-like state G (NumPy's legacy global generator, the random_state of the scipy.stats "
                   "distributions: every access is a write, other code may do anything to it at any time) and table-like state T (module-level "
                   "containers, class attributes, cached plug-in instances, the configuration object: readable at will, writes are counted): for "
                   "every start-up and sampling program, evaluator, optimizer strategy, configuration and step budget, if the run itself neither "
                   "touches G nor writes T then for ALL schedules of foreign operations on G (any number, before the run, between evaluations, "
                   "inside the evaluator, including complete other runs) and ALL initial states of G the sequence of evaluator requests, results "
                   "and the exit code are identical, T is handed back unchanged and G is left exactly as the foreign operations made it; the k-th "
                   "run of a process of such runs equals the same configuration run alone (the run-local generator is re-derived from the "
                   "configuration's seed) and the order of the jobs is irrelevant; a sampler that draws from the global generator, and a run that "
                   "writes the tables, are counted and do interfere.  The premise is tied to the code on every run: a monitor counts accesses of G "
                   "and writes of T from ropt/SciPy during real optimizations (must be 0) and the byte-exact traces of each configuration and "
                   "workload (optimizer step + gradient probe, evaluator steps, the same step twice, nested plan sharing the configuration) under "
                   "fresh interpreters with two hash seeds, preceding and interleaved other runs, reused PluginManager / OptimizerContext / Plan / "
                   "step / EnOptConfig objects and reseeding of G are compared inside Coq with the machine's answer; another seed must change the "
                   "perturbations."),
    "level_note": ("PARTIAL: the Coq model covers interference through the state the monitor fingerprints -- generator-like: numpy.random.mtrand._rand "
                   "and the random_state of scipy.stats uniform/norm/truncnorm; table-like: module-level containers and class attributes of all loaded "
                   "ropt modules, attributes of the plug-in instances shared by every PluginManager, the configuration object (compared at the start of "
                   "a schedule and at the end of a run) -- state hidden elsewhere in CPython, NumPy, SciPy or LAPACK (other caches, OS entropy, thread "
                   "scheduling) is outside the model and is exercised only by the schedules (fresh interpreters with PYTHONHASHSEED 0 and another one, "
                   "preceding and interleaved different runs, reused objects).  The replay machine is built from the reference run, so the in-Coq "
                   "comparison is 'every schedule = reference'; a defect that shows identically in every schedule can only be seen by the "
                   "intra-run comparison (same step twice) and the hash-seed pair.  C16_seed_matters_partial assumes injectivity of default_rng, of "
                   "the start-up and of the sampler in the generator state; the real claim is checked on the implementation.  Trusted: Coq kernel + "
                   "VM; the monitor; SHA-256 digests of the exact bytes (Coq compares 60-bit prefixes, the Python oracle full digests).  All theorems "
                   "print 'Closed under the global context'."),
    "technique": "Coq proof (non-interference and frame property by induction over the run of a parametric machine with start-up and sampling programs over local, generator-like and table-like state) + monitored premise (touches of G, writes of T) + in-Coq comparison of byte-exact traces of real optimizations across schedules",
    "design_ref": "DESIGN.md section 4, C16",
}
