"""C16 -- runs are reproducible from configuration and seed alone.

Every case is one configuration (samplers of every built-in method, shared or not, several samplers,
filters, estimators, masks, slsqp / l-bfgs-b / nelder-mead / differential_evolution with an explicit
seed option).  It is run (a) in a fresh interpreter (reference), (b) in a second fresh interpreter with
another PYTHONHASHSEED, and (c) in this process under a set of schedules: after other, different runs;
with one PluginManager / OptimizerContext reused for all runs or new ones per run; with NumPy's legacy
global generator reseeded and drawn from before the run, between evaluations and inside the evaluator.
Every run is a real optimization of a few iterations through Plan / the optimizer step.

Recorded per run: the byte-exact sequence of evaluator requests (variables, realizations, perturbation
indices, active flags), evaluator results, FINISHED_EVALUATION results and the exit code (SHA-256 of the
bytes; 60-bit prefixes go to Coq), and the number of touches of the global generator that did not come
from the harness (wrapped np.random.* entry points, wrapped scipy check_random_state(None), and the
fingerprint of the global generator's state at every evaluator entry / evaluation start / run end).
Inside Coq the machine of Model/Rng.v is run on the recorded schedule and must give the observed trace,
exit code and touch count (0).  A run with another seed must perturb differently.
"""
from __future__ import annotations

import contextlib
import dataclasses
import hashlib
import json
import os
import subprocess
import sys

import coqio as cq

ID = "C16"
THEOREM_FILE = "Props/C16.v"
CHK_MODULE = "Check.Chk_C16"
CASE_TYPE = "Chk_C16.case"
CHECK_FN = "Chk_C16.check_case"
HEADER = "From Ropt Require Import Model.Rng."
SHARD_SIZE = 12
PARALLEL = True
CASE_TIMEOUT = 300
EXHAUSTIVE = {"quick": False, "thorough": False}

RULE = ("per case one configuration drawn from: optimizer in {slsqp, l-bfgs-b, nelder-mead, differential_evolution(seed option)}; 2-4 "
        "variables (optionally masked), 1-3 realizations, 2-4 perturbations; one or two samplers of every built-in method "
        "(norm, uniform, truncnorm, sobol, halton, lhs; shared or not; assigned per variable); optional sort/cvar objective filter, "
        "mean/stddev estimators, merged realizations, integer or tuple seeds.  Each configuration is run as a real optimization under "
        "every schedule of the tier (fresh interpreter = reference; fresh interpreter with another PYTHONHASHSEED; in process: plain, after "
        "other different runs with new / reused PluginManager / reused OptimizerContext, global generator reseeded and drawn from "
        "before the run, at every evaluation start and inside every evaluator call) and once more with another seed.  "
        "Non-trivial = the reference made at least 3 evaluator calls and at least 4 schedules were compared; distinct = distinct configurations.")
ASSUMPTIONS = [
    "the evaluator supplied by the harness is a deterministic function of the request (checked: the replay machine reproduces the reference)",
    "population optimizers are given an explicit seed option (property quantifier)",
    "equality of SHA-256 digests is equality of byte strings; Coq compares 60-bit prefixes, the Python oracle the full digests",
    "foreign activity is represented by np.random.seed(j) and np.random.random(n) calls at the three kinds of schedule points",
]
TRUSTED = [
    "the run-time monitor (wrappers around the 48 legacy np.random entry points and scipy's check_random_state, plus state fingerprints of "
    "numpy.random.mtrand._rand) sees every read or write of NumPy's legacy global generator made during a run",
    "state hidden in CPython / NumPy / SciPy / LAPACK other than the legacy global generator is outside the Coq model (PARTIAL); it is "
    "exercised only through the schedules (fresh interpreters, other hash seed, preceding runs, reused objects)",
]

# explicit sampler options (valid SciPy arguments) - "other runs" use them while the run under test relies on the
# defaults and vice versa: options of one run must never leak into another
SAMPLER_OPTIONS = {
    "norm": [{"scale": 0.5}, {"loc": 0.25}],
    "uniform": [{"loc": -0.5, "scale": 1.0}, {"scale": 1.0}],
    "truncnorm": [{"a": -0.5, "b": 0.5}, {"b": 0.25}],
    # (scramble=False would make sobol/halton deterministic sequences that legitimately ignore the seed)
    "sobol": [{"bits": 28}, {"bits": 24}],
    "halton": [{"scramble": True}, {"scramble": True}],
    "lhs": [{"scramble": False}, {"strength": 1}],
}
METHODS = ["slsqp", "l-bfgs-b", "nelder-mead", "differential_evolution"]
SAMPLERS = ["norm", "uniform", "truncnorm", "sobol", "halton", "lhs"]
HARNESS_DIR = os.path.dirname(os.path.dirname(os.path.abspath(__file__)))


# ---- generators -----------------------------------------------------------------------------------
def _rand_spec(rng, k):
    method = METHODS[k % 4] if k < 8 else rng.choice(METHODS + ["slsqp", "l-bfgs-b"])
    nvar = rng.randint(2, 4)
    nreal = rng.randint(1, 3)
    nsam = rng.choice([1, 1, 2])
    samplers = [{"method": SAMPLERS[(k + i * 3) % 6] if k < 12 else rng.choice(SAMPLERS), "shared": rng.random() < 0.4}
                for i in range(nsam)]
    for i, smp in enumerate(samplers):
        if rng.random() < 0.25:
            smp["options"] = SAMPLER_OPTIONS[smp["method"]][(k + i) % 2]
    idx = None
    if nsam == 2:
        idx = [rng.randrange(2) for _ in range(nvar)]
        idx[0], idx[-1] = 1, 0          # both used; sampler 1 appears first
        if rng.random() < 0.3:
            idx[rng.randrange(1, nvar)] = -1 if nvar > 2 else idx[1]
            idx[0], idx[-1] = 1, 0
    mask = None
    if rng.random() < 0.3:
        mask = [True] * nvar
        mask[rng.randrange(nvar)] = False
    spec = {
        "method": method, "nvar": nvar, "nreal": nreal, "npert": rng.randint(2, 4),
        "seed": rng.choice([rng.randrange(1, 10 ** 6), [rng.randrange(1, 100), rng.randrange(1, 100)]]),
        "samplers": samplers, "sampler_idx": idx, "mask": mask,
        "filter": rng.choice([None, None, "sort-objective", "cvar-objective"]) if nreal == 3 else None,
        "estimator": rng.choice([None, "mean", "stddev"]) if nreal >= 2 else None,
        "merge": rng.random() < 0.2, "max_functions": rng.choice([4, 6, 8, 25]),
        "de_seed": rng.randrange(1, 1000), "start": [rng.choice([-0.25, 0.0, 0.125, 0.5]) for _ in range(nvar)],
        "constraint": method in ("slsqp", "differential_evolution") and rng.random() < 0.4,
        "split": rng.random() < 0.2,
    }
    if spec["estimator"] == "stddev":
        spec["merge"] = False
    if method == "differential_evolution":
        spec["max_functions"] = rng.choice([12, 20])
    return spec


def _variant(spec, i):
    """A different configuration, used as 'another optimization executed earlier in the same process'."""
    v = json.loads(json.dumps(spec))
    v["seed"] = 7000 + i if i % 2 == 0 else spec["seed"]
    v["samplers"] = [{"method": SAMPLERS[(SAMPLERS.index(s["method"]) + 1 + i) % 6], "shared": not s["shared"]}
                     for s in spec["samplers"]]
    if i % 2 == 1:
        v["method"] = METHODS[(METHODS.index(spec["method"]) + 1) % 4]
        v["constraint"] = False
        v["max_functions"] = 12 if v["method"] == "differential_evolution" else 5
    else:
        # same samplers and methods, other seed: shares every cached object.  The other run gives explicit options
        # where the run under test relies on the defaults (and the other way round)
        v["samplers"] = [({"method": x["method"], "shared": x["shared"]} if "options" in x else
                          {"method": x["method"], "shared": x["shared"], "options": SAMPLER_OPTIONS[x["method"]][(i // 2) % 2]})
                         for x in spec["samplers"]]
    return v


def _schedules(tier, rng):
    s = [
        {"name": "inproc-plain", "reuse": "fresh", "others": 0, "pre": [], "between": [], "inside": []},
        {"name": "after-others-new-objects", "reuse": "fresh", "others": 2, "pre": [], "between": [], "inside": []},
        {"name": "after-others-reused-manager", "reuse": "manager", "others": 2, "pre": [], "between": [], "inside": []},
        {"name": "after-others-reused-context", "reuse": "context", "others": 2, "pre": [], "between": [], "inside": []},
        # the SAME validated EnOptConfig object (and context) is run once before: a second run of one configuration
        # object must not continue any state of the first
        {"name": "same-config-object-run-again", "reuse": "config", "others": 1, "pre": [], "between": [], "inside": []},
        {"name": "reseed-before", "reuse": "fresh", "others": 0, "pre": [rng.randrange(1000), -3], "between": [], "inside": []},
        {"name": "reseed-between-and-inside", "reuse": "fresh", "others": 0, "pre": [rng.randrange(1000)],
         "between": [rng.randrange(1000), -2], "inside": [-1, rng.randrange(1000), -5]},
    ]
    if tier == "thorough":
        s += [
            {"name": "same-seed-everywhere", "reuse": "fresh", "others": 0, "pre": [5], "between": [5], "inside": [5]},
            {"name": "draws-only", "reuse": "fresh", "others": 0, "pre": [-7], "between": [-1], "inside": [-2]},
            {"name": "after-others-reused-context-reseeded", "reuse": "context", "others": 3, "pre": [rng.randrange(1000)],
             "between": [-1], "inside": [rng.randrange(1000)]},
            {"name": "after-others-reused-manager-reseeded", "reuse": "manager", "others": 3, "pre": [-2],
             "between": [rng.randrange(1000)], "inside": [-3]},
        ]
    return s


def gen_cases(tier, rng):
    n = 24 if tier == "quick" else 160
    for k in range(n):
        yield {"spec": _rand_spec(rng, k), "schedules": _schedules(tier, rng), "hashseed": rng.randrange(1, 2 ** 31),
               "subprocess": True}


# ---- the run-time monitor of NumPy's legacy global generator ---------------------------------------
class _Monitor:
    """Counts reads/writes of numpy.random.mtrand._rand that were not made by the harness itself."""

    instance = None

    def __init__(self):
        import numpy as np
        self.np = np
        self.rand = np.random.mtrand._rand
        self.touches = []
        self.foreign = 0
        self.active = False
        self.expected = None
        self.wrapped_crs = set()
        names = [n for n in dir(np.random.RandomState) if not n.startswith("_") and hasattr(np.random, n)]
        self.entry_points = len(names)
        for n in names:
            setattr(np.random, n, self._wrap(n, getattr(np.random, n)))
        self._wrap_check_random_state()

    @classmethod
    def get(cls):
        if cls.instance is None:
            cls.instance = cls()
        return cls.instance

    def _wrap(self, name, f):
        mon = self

        def wrapper(*a, **k):
            if mon.active and not mon.foreign:
                mon.touches.append("np.random." + name)
            return f(*a, **k)
        wrapper.__name__ = name
        wrapper._c16_wrapped = True
        return wrapper

    def _wrap_check_random_state(self):
        """scipy modules bind check_random_state by name: wrap it in every loaded module that has it."""
        try:
            import scipy._lib._util as util
        except ImportError:
            return
        orig = getattr(util.check_random_state, "_c16_orig", util.check_random_state)
        mon = self
        np = self.np

        def check_random_state(seed):
            if mon.active and not mon.foreign and (seed is None or seed is np.random):
                mon.touches.append("scipy.check_random_state(None)")
            return orig(seed)
        check_random_state._c16_orig = orig
        for name, mod in list(sys.modules.items()):
            if name.startswith("scipy") and mod is not None and name not in self.wrapped_crs:
                if getattr(mod, "check_random_state", None) is orig:
                    setattr(mod, "check_random_state", check_random_state)
                    self.wrapped_crs.add(name)

    def fingerprint(self):
        st = self.rand.get_state(legacy=False)
        h = hashlib.sha256()
        h.update(st["state"]["key"].tobytes())
        h.update(repr((st["state"]["pos"], st["has_gauss"], float(st["gauss"]).hex())).encode())
        return h.hexdigest()

    def start(self):
        self._wrap_check_random_state()
        self.touches = []
        self.active = True
        self.expected = self.fingerprint()

    def check(self, where):
        fp = self.fingerprint()
        if fp != self.expected:
            self.touches.append("state-changed-before-" + where)
            self.expected = fp

    def stop(self):
        self.check("run-end")
        self.active = False
        return list(self.touches)

    @contextlib.contextmanager
    def as_foreign(self):
        self.foreign += 1
        try:
            yield
        finally:
            self.foreign -= 1
            self.expected = self.fingerprint()

    def do_foreign(self, ops, shift):
        """ops: j >= 0 -> np.random.seed(j + shift); j < 0 -> np.random.random(-j).  Returns the ops performed."""
        done = []
        np = self.np
        with self.as_foreign():
            for j in ops:
                if j >= 0:
                    np.random.seed(j + shift)
                    done.append(j + shift)
                else:
                    np.random.random(-j)
                    done.append(j)
        return done


# ---- digests ----------------------------------------------------------------------------------------
def _blob(h, obj):
    import enum
    import numpy as np
    if obj is None:
        h.update(b"N;")
    elif isinstance(obj, np.ndarray):
        h.update(f"A{obj.dtype}{obj.shape};".encode())
        h.update(np.ascontiguousarray(obj).tobytes())
    elif isinstance(obj, (bool, np.bool_)):
        h.update(b"T;" if obj else b"F;")
    elif isinstance(obj, enum.Enum):
        h.update(f"E{type(obj).__name__}.{obj.name};".encode())
    elif isinstance(obj, (int, np.integer)):
        h.update(f"I{int(obj)};".encode())
    elif isinstance(obj, (float, np.floating)):
        h.update(f"R{float(obj).hex()};".encode())
    elif isinstance(obj, str):
        h.update(f"S{obj};".encode())
    elif isinstance(obj, (tuple, list)):
        h.update(f"L{len(obj)};".encode())
        for x in obj:
            _blob(h, x)
    elif isinstance(obj, dict):
        h.update(f"D{len(obj)};".encode())
        for k in sorted(obj, key=str):
            _blob(h, str(k))
            _blob(h, obj[k])
    elif dataclasses.is_dataclass(obj):
        h.update(f"C{type(obj).__name__};".encode())
        for f in dataclasses.fields(obj):
            if f.name != "metadata":
                h.update(f.name.encode())
                _blob(h, getattr(obj, f.name))
    else:
        raise TypeError(f"cannot digest {type(obj).__name__}")


def _digest(*objs):
    h = hashlib.sha256()
    for o in objs:
        _blob(h, o)
    return h.hexdigest()


def _zdig(hexd):
    return int(hexd[:15], 16)


# ---- the real runs ------------------------------------------------------------------------------------
def _config(spec):
    import numpy as np
    nvar, nreal = spec["nvar"], spec["nreal"]
    config = {
        "variables": {"initial_values": spec["start"], "lower_bounds": [-1.0] * nvar, "upper_bounds": [1.0] * nvar},
        "optimizer": {"method": spec["method"], "max_functions": spec["max_functions"],
                      "split_evaluations": bool(spec["split"])},
        "realizations": {"weights": [1.0 + 0.5 * r for r in range(nreal)]},
        "gradient": {"number_of_perturbations": spec["npert"], "seed": tuple(spec["seed"]) if isinstance(spec["seed"], list) else spec["seed"],
                     "perturbation_magnitudes": 0.0625, "merge_realizations": bool(spec["merge"])},
        "samplers": [{"method": s["method"], "shared": s["shared"], **({"options": s["options"]} if "options" in s else {})}
                     for s in spec["samplers"]],
        "objectives": {"weights": [1.0, 0.5]},
    }
    if spec["mask"] is not None:
        config["variables"]["mask"] = spec["mask"]
    if spec["sampler_idx"] is not None:
        config["gradient"]["samplers"] = spec["sampler_idx"]
    if spec["method"] == "differential_evolution":
        config["optimizer"]["options"] = {"seed": spec["de_seed"], "popsize": 2, "maxiter": 3}
    if spec["constraint"]:
        config["nonlinear_constraints"] = {"lower_bounds": [-np.inf], "upper_bounds": [0.75]}
    if spec["filter"] == "sort-objective":
        config["realization_filters"] = [{"method": "sort-objective", "options": {"sort": [0], "first": 0, "last": 1}}]
        config["objectives"]["realization_filters"] = [0, -1]
    elif spec["filter"] == "cvar-objective":
        config["realization_filters"] = [{"method": "cvar-objective", "options": {"sort": [0], "percentile": 0.5}}]
        config["objectives"]["realization_filters"] = [0, -1]
    if spec["estimator"] is not None:
        config["function_estimators"] = [{"method": "mean"}, {"method": spec["estimator"]}]
        config["objectives"]["function_estimators"] = [0, 1]
    return config


def _evaluate(variables, ctx):
    """The deterministic evaluator: two objectives, optionally one constraint, per realization."""
    import numpy as np
    from ropt.evaluator import EvaluatorResult
    n = variables.shape[0]
    obj = np.zeros((n, 2))
    con = np.zeros((n, 1))
    for i, r in enumerate(ctx.realizations):
        x = variables[i]
        t = 0.25 + 0.125 * float(r)
        obj[i, 0] = float(np.sum((x - t) ** 2))
        obj[i, 1] = float(np.sum(np.abs(x + 0.5) ** 1.5)) + 0.0625 * float(r)
        con[i, 0] = float(np.sum(x))
    return EvaluatorResult(objectives=obj, constraints=con if ctx.config.nonlinear_constraints is not None else None)


class _Session:
    """One PluginManager + OptimizerContext; evaluator and observers dispatch to the run in progress."""

    def __init__(self, manager=None):
        from ropt.enums import EventType
        from ropt.plan import OptimizerContext
        from ropt.plugins import PluginManager
        self.manager = PluginManager() if manager is None else manager
        self.run = None
        self.context = OptimizerContext(evaluator=lambda v, c: self.run.evaluate(v, c), plugin_manager=self.manager)
        self.context.add_observer(EventType.START_EVALUATION, lambda e: self.run.on_start(e))
        self.context.add_observer(EventType.FINISHED_EVALUATION, lambda e: self.run.on_finished(e))


class _Run:
    def __init__(self, spec, sched, mon):
        self.spec, self.sched, self.mon = spec, sched, mon
        self.entries, self.micro, self.pending = [], [], []
        self.pert = None
        self.calls = 0
        self.events = 0

    def on_start(self, event):
        self.mon.check("evaluation-start")
        self.pending += self.mon.do_foreign(self.sched["between"], self.calls)

    def evaluate(self, variables, ctx):
        import numpy as np
        self.mon.check("evaluator-entry")
        inside = self.mon.do_foreign(self.sched["inside"], 3 * self.calls)
        self.micro += [self.pending, inside]
        self.pending = []
        self.calls += 1
        perturbed = ctx.perturbations is not None and bool(np.any(np.asarray(ctx.perturbations) >= 0))
        req = _digest(variables, ctx.realizations, ctx.perturbations, ctx.active_objectives, ctx.active_constraints)
        if perturbed and self.pert is None:
            self.pert = _digest(variables[np.asarray(ctx.perturbations) >= 0])
        with self.mon.as_foreign():      # the user's evaluator may do anything; ours is pure NumPy arithmetic
            result = _evaluate(variables, ctx)
        self.entries.append(["C", perturbed, req, _digest(result.objectives, result.constraints)])
        return result

    def on_finished(self, event):
        self.mon.check("evaluation-end")
        if "results" in event.data:
            self.entries.append(["R", False, _digest("results-event", self.events), _digest(list(event.data["results"]))])
            self.micro += [[], []]
            self.events += 1

    def execute(self, session, config=None):
        import warnings
        from ropt.config.enopt import EnOptConfig
        from ropt.plan import Plan
        warnings.simplefilter("ignore")
        mon = self.mon
        session.run = self
        mon.start()
        try:
            self.pending += mon.do_foreign(self.sched["pre"], 0)
            plan = Plan(session.context)
            step = plan.add_step("optimizer")
            code = plan.run_step(step, config=EnOptConfig.model_validate(_config(self.spec)) if config is None else config)
        finally:
            touches = mon.stop()
            session.run = None
        return {"name": self.sched["name"], "entries": self.entries, "micro": self.micro,
                "exit": int(getattr(code, "value", -1)), "exit_name": getattr(code, "name", str(code)),
                "touches": len(touches), "touch_names": sorted(set(touches))[:6], "pert": self.pert}


_QUIET = {"name": "quiet", "reuse": "fresh", "others": 0, "pre": [], "between": [], "inside": []}


def _run_schedule(spec, sched, mon):
    session = _Session()
    manager = session.manager
    quiet = dict(_QUIET, pre=sched["pre"][:1])
    if sched["reuse"] == "config":
        import warnings
        from ropt.config.enopt import EnOptConfig
        warnings.simplefilter("ignore")
        shared = EnOptConfig.model_validate(_config(spec))
        for i in range(sched["others"]):
            _Run(spec, quiet, mon).execute(session, shared)
        return _Run(spec, sched, mon).execute(session, shared)
    for i in range(sched["others"]):
        if sched["reuse"] == "fresh":
            session = _Session()
        elif sched["reuse"] == "manager":
            session = _Session(manager)
        _Run(_variant(spec, i), quiet, mon).execute(session)
    if sched["reuse"] == "fresh":
        session = _Session()
    elif sched["reuse"] == "manager":
        session = _Session(manager)
    return _Run(spec, sched, mon).execute(session)


def _child(payload):
    """Entry point of the fresh interpreter: one quiet run of the configuration."""
    mon = _Monitor.get()
    out = _run_schedule(payload["spec"], dict(_QUIET, name=payload["name"]), mon)
    out["entry_points"] = mon.entry_points
    return out


def _fresh_start(spec, name, hashseed):
    code = ("import sys, json; sys.path.insert(0, %r); from common import use_repo_sources; use_repo_sources(); "
            "import props.C16 as m; out = m._child(json.loads(sys.argv[1])); sys.stdout.write('\\n@@C16@@' + json.dumps(out))" % HARNESS_DIR)
    env = dict(os.environ)
    env["PYTHONHASHSEED"] = str(hashseed)
    return subprocess.Popen([sys.executable, "-c", code, json.dumps({"spec": spec, "name": name})], stdin=subprocess.DEVNULL,
                            stdout=subprocess.PIPE, stderr=subprocess.PIPE, text=True, env=env)


def _fresh_finish(p):
    try:
        out, err = p.communicate(timeout=240)
        rc = p.returncode
    finally:
        if p.poll() is None:
            p.kill()
    if rc != 0 or "@@C16@@" not in out:
        raise RuntimeError("fresh interpreter failed: " + err[-1500:])
    return json.loads(out.rsplit("@@C16@@", 1)[1])


def run_impl(case):
    spec = case["spec"]
    mon = _Monitor.get()
    procs = []
    if case.get("subprocess", True):        # both fresh interpreters run while this process does the schedules
        procs = [_fresh_start(spec, "fresh-interpreter", 0),
                 _fresh_start(spec, "fresh-interpreter-other-hashseed", case["hashseed"])]
    runs = []
    try:
        for k, sched in enumerate(case["schedules"]):
            out = _run_schedule(spec, sched, mon)
            out["g0"] = k + 1
            runs.append(out)
    except BaseException:
        for p in procs:
            p.kill()
        raise
    if procs:
        ref = _fresh_finish(procs[0])
        runs.insert(0, _fresh_finish(procs[1]))
    else:                                   # all in process
        ref = _run_schedule(spec, dict(_QUIET, name="inproc-reference"), mon)
    other = json.loads(json.dumps(spec))
    other["seed"] = [spec["seed"][0] + 1, spec["seed"][1]] if isinstance(spec["seed"], list) else spec["seed"] + 1
    oth = _run_schedule(other, dict(_QUIET, name="other-seed"), mon)
    return {"ref": ref, "runs": runs, "other_seed": {"pert": oth["pert"], "touches": oth["touches"]},
            "monitor_entry_points": mon.entry_points}


# ---- Gallina printer ------------------------------------------------------------------------------
def _trace_term(entries):
    return cq.lst(f"({cq.z(_zdig(e[2]))}, {cq.z(_zdig(e[3]))})" for e in entries)


def coq_case(case, obs):
    ref = obs["ref"]
    calls = cq.lst(f"({cq.b(e[1])}, {cq.z(_zdig(e[2]))}, {cq.z(_zdig(e[3]))})" for e in ref["entries"])
    runs = []
    for r in obs["runs"]:
        sched = cq.lst(cq.zs(m) for m in r["micro"])
        runs.append(f"(robs {sched} {int(r.get('g0', 0))} {_trace_term(r['entries'])} {int(r['exit'])} {int(r['touches'])})")
    if ref["pert"] is None:
        pert = "None"
    else:
        o = obs["other_seed"]["pert"]
        pert = f"(Some ({cq.z(_zdig(ref['pert']))}, {cq.z(_zdig(o) if o is not None else -1)}))"
    return f"(Build_case (scr {calls} {int(ref['exit'])}) {cq.nat(ref['touches'])} {cq.lst(runs)} {pert})"


# ---- oracle: the property text on the recorded runs (no model) --------------------------------------
def oracle(case, obs):
    ref = obs["ref"]
    if ref["touches"]:
        return {"clause": "global-generator-touched", "detail": {"schedule": ref["name"], "by": ref["touch_names"]}}
    for r in obs["runs"]:
        if r["touches"]:
            return {"clause": "global-generator-touched", "detail": {"schedule": r["name"], "by": r["touch_names"]}}
    if obs["other_seed"]["touches"]:
        return {"clause": "global-generator-touched", "detail": {"schedule": "other-seed"}}
    for r in obs["runs"]:
        a, b = ref["entries"], r["entries"]
        if [e[2:] for e in a] != [e[2:] for e in b]:
            k = next((i for i, (x, y) in enumerate(zip(a, b)) if x[2:] != y[2:]), min(len(a), len(b)))
            what = "length" if k >= min(len(a), len(b)) else ("request" if a[k][2] != b[k][2] else "result")
            kind = (a[k][0] if k < len(a) else b[k][0]) if what != "length" else "-"
            return {"clause": "trace-not-bit-identical", "detail": {"schedule": r["name"], "first_difference_at": k,
                                                                   "what": what, "entry_kind": kind,
                                                                   "lengths": [len(a), len(b)]}}
        if r["exit"] != ref["exit"]:
            return {"clause": "exit-code-differs", "detail": {"schedule": r["name"], "reference": ref["exit_name"], "got": r["exit_name"]}}
    if ref["pert"] is not None and obs["other_seed"]["pert"] == ref["pert"]:
        return {"clause": "seed-does-not-change-perturbations", "detail": {"seed": case["spec"]["seed"]}}
    return None


def nontrivial(case, obs):
    calls = sum(1 for e in obs["ref"]["entries"] if e[0] == "C")
    return calls >= 3 and len(obs["runs"]) >= 4


def features(case, obs):
    s = case["spec"]
    return {"method": s["method"], "samplers": "+".join(x["method"] + ("*" if x["shared"] else "") + ("{opt}" if "options" in x else "") for x in s["samplers"]),
            "perturbed_calls": min(3, sum(1 for e in obs["ref"]["entries"] if e[0] == "C" and e[1])),
            "calls": min(12, sum(1 for e in obs["ref"]["entries"] if e[0] == "C")),
            "filter": s["filter"], "estimator": s["estimator"], "mask": s["mask"] is not None,
            "exit": obs["ref"]["exit_name"], "schedules": len(obs["runs"]), "seed_tuple": isinstance(s["seed"], list)}


def known_signature(case, obs, violation):
    return None


def shrink(case):
    if len(case["schedules"]) > 1:
        for k in range(len(case["schedules"])):
            yield {**case, "schedules": [case["schedules"][k]]}
    s = case["spec"]
    if len(s["samplers"]) > 1:
        yield {**case, "spec": {**s, "samplers": s["samplers"][:1], "sampler_idx": None}}
    for key, val in (("filter", None), ("estimator", None), ("mask", None), ("merge", False), ("split", False), ("constraint", False)):
        if s[key] not in (None, False):
            yield {**case, "spec": {**s, key: val}}


def search(rng, case):
    import random
    r = random.Random(rng.random())
    for k in range(16):
        yield {"spec": _rand_spec(r, k), "schedules": _schedules("quick", r), "hashseed": r.randrange(1, 2 ** 31), "subprocess": True}


MANIFEST = {
    "level_text": ("Machine-checked Coq proof of non-interference for an abstract machine of an optimization run (Model/Rng.v): for every "
                   "sampling program, evaluator, optimizer strategy, configuration and step budget, if the run itself does not touch the "
                   "process-global generator then for ALL schedules of foreign operations on it (any number, before the run, between "
                   "evaluations, inside the evaluator) and ALL initial global states the sequence of evaluator requests, results and the "
                   "exit code are identical; the k-th run of a process equals the same configuration run alone (the run-local generator is "
                   "re-derived from the configuration's seed); a sampler that draws from the global generator is counted and does interfere.  "
                   "The premise is tied to the code on every run: a monitor counts touches of NumPy's legacy global generator from ropt/SciPy "
                   "during real optimizations (must be 0) and the byte-exact traces of each configuration under fresh interpreters, other hash "
                   "seeds, preceding runs, reused PluginManager/OptimizerContext and global reseeding are compared inside Coq with the machine's "
                   "answer; another seed must change the perturbations."),
    "level_note": ("PARTIAL: the Coq model covers interference through the process-global NumPy generator only; state hidden in CPython, NumPy, "
                   "SciPy or LAPACK (object caches, hash seeds, thread scheduling) is outside the model and is exercised only by the schedules "
                   "(fresh interpreters, another PYTHONHASHSEED, preceding different runs, reused plug-in managers and contexts).  "
                   "C16_seed_matters_partial assumes injectivity of default_rng and of the sampler in the generator state; the real claim is "
                   "checked on the implementation.  Trusted: Coq kernel + VM; the monitor (wrapped np.random entry points, wrapped "
                   "check_random_state, state fingerprints of mtrand._rand); SHA-256 digests of the exact bytes (Coq compares 60-bit prefixes, "
                   "the Python oracle full digests).  All theorems print 'Closed under the global context'."),
    "technique": "Coq proof (non-interference by induction over the run of a parametric machine with sampling programs) + monitored premise + in-Coq comparison of byte-exact traces of real optimizations across schedules",
    "design_ref": "DESIGN.md section 4, C16",
}
