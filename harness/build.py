"""Coq project management: _CoqProject from the files on disk, coq_makefile, locked `make`."""
from __future__ import annotations

import fcntl
import re
import subprocess
from pathlib import Path

from common import COQ, NCPU

DIRS = ("Base", "Gen", "Model", "Proofs", "Props", "Check")
FORBIDDEN = re.compile(
    r"\b(Admitted|admit|Axiom|Axioms|Parameter|Parameters|Conjecture|Conjectures|Abort All|"
    r"Admit Obligations|bypass_check|Unset Guard Checking|Unset Positivity Checking|"
    r"Unset Universe Checking|type-in-type|impredicative-set|native_compute)\b")


def project_files() -> list[str]:
    out = []
    for d in DIRS:
        out += sorted(str(p.relative_to(COQ)) for p in (COQ / d).glob("*.v"))
    return out


def ensure_project() -> bool:
    """(Re)write _CoqProject and Makefile when the set of files changed."""
    text = "-R . Ropt\n-arg -w -arg -notation-overridden,-deprecated-hint-without-locality,-deprecated-instance-without-locality\n" \
        + "\n".join(project_files()) + "\n"
    cp = COQ / "_CoqProject"
    changed = not cp.exists() or cp.read_text() != text or not (COQ / "Makefile").exists()
    if changed:
        cp.write_text(text)
        subprocess.run(["coq_makefile", "-f", "_CoqProject", "-o", "Makefile"], cwd=COQ, check=True,
                       capture_output=True)
    return changed


def make(targets: list[str] | None = None, timeout: int = 3000) -> tuple[int, str]:
    """Locked `make` of the given .vo targets (all when None). Full .vo build, never -vos."""
    lock = open(COQ / ".build.lock", "w")
    fcntl.flock(lock, fcntl.LOCK_EX)
    try:
        ensure_project()
        cmd = ["timeout", str(timeout), "make", f"-j{NCPU}"] + (targets or [])
        p = subprocess.run(cmd, cwd=COQ, capture_output=True, text=True)
        return p.returncode, p.stdout + p.stderr
    finally:
        fcntl.flock(lock, fcntl.LOCK_UN)
        lock.close()


def strip_comments(text: str) -> str:
    out, depth, i = [], 0, 0
    while i < len(text):
        if text.startswith("(*", i):
            depth += 1
            i += 2
        elif text.startswith("*)", i) and depth:
            depth -= 1
            i += 2
        else:
            if not depth:
                out.append(text[i])
            i += 1
    return "".join(out)


def forbidden_tokens(roots: list[str] | None = None) -> list[str]:
    """Occurrences of Admitted/Axiom/... in the .v files the given roots depend on (all project files
    when roots is None); comments stripped."""
    hits = []
    files = project_files()
    if roots is not None:
        files = sorted({f for r in roots for f in deps_closure(r)})
    for rel in files:
        body = strip_comments((COQ / rel).read_text())
        for n, line in enumerate(body.splitlines(), 1):
            m = FORBIDDEN.search(line)
            if m:
                hits.append(f"{rel}:{n}: {m.group(0)}")
    return hits


def deps_closure(rel_v: str) -> list[str]:
    """Project files a .v file transitively depends on (from `From Ropt Require Import` lines)."""
    seen, todo = [], [rel_v]
    while todo:
        f = todo.pop()
        if f in seen or not (COQ / f).exists():
            continue
        seen.append(f)
        text = strip_comments((COQ / f).read_text())
        for m in re.finditer(r"From\s+Ropt\s+Require\s+(?:Import|Export)\s+([^\n]*?)\.\s*$", text, re.M):
            for mod in m.group(1).split():
                todo.append(mod.replace(".", "/") + ".v")
        for m in re.finditer(r"Require\s+(?:Import|Export)\s+((?:Ropt\.[\w.]+\s*)+)", text):
            for mod in m.group(1).split():
                todo.append(mod.rstrip(".")[5:].replace(".", "/") + ".v")
    return seen
