#!/venv/bin/python
"""Regenerate the table of seeded changes in DESIGN.md (between the SEEDED-TABLE markers) from seeded/*/meta.json."""
import json
import re
from pathlib import Path

VERIF = Path(__file__).resolve().parent.parent
rows = []
for d in sorted((VERIF / "seeded").iterdir()):
    m = json.loads((d / "meta.json").read_text())
    v = m.get("verified", {})
    det = []
    for c, r in v.get("checks", {}).items():
        det.append(f"{c}: {'caught' if r.get('detected') else 'MISSED'}")
    first = m.get("first_run")
    note = m.get("strengthened", "")
    summ = re.sub(r"\s+", " ", m["summary"])[:230]
    needs = re.sub(r"\s+", " ", m.get("needs", ""))[:200]
    rows.append(f"| `{d.name}` | {m['property']} | {summ} | {needs} | {', '.join(det)}{(' — ' + note) if note else ''} |")
table = ("| seeded change | property | what it does | needs to manifest | quick check (seed 0) |\n|---|---|---|---|---|\n"
         + "\n".join(rows) + "\n")
p = VERIF / "DESIGN.md"
s = p.read_text()
a, b = "<!-- SEEDED-TABLE-BEGIN -->", "<!-- SEEDED-TABLE-END -->"
if a in s:
    s = s[: s.index(a) + len(a)] + "\n" + table + s[s.index(b):]
    p.write_text(s)
    print("table updated:", len(rows), "rows")
else:
    print(table)
