"""Shared paths, environment and small helpers for the verification harness."""
from __future__ import annotations

import hashlib
import json
import os
import sys
from pathlib import Path

VERIF = Path(__file__).resolve().parent.parent
# The tree under verification.  /repo unless VERIF_REPO points at a scratch worktree
# (used only while testing the machinery against seeded changes).
REPO = Path(os.environ.get("VERIF_REPO", "/repo")).resolve()
COQ = VERIF / "coq"
WORK = VERIF / ".work"
# evidence of runs against a scratch tree (VERIF_REPO) must never overwrite the evidence of /repo
EVIDENCE = VERIF / "evidence" if str(REPO) == "/repo" else WORK / "evidence-scratch"
REPLAYS = VERIF / "replays"
CORPUS = VERIF / "corpus"
KNOWN_FILE = VERIF / "known_findings.json"
GUARD = "TNO_ROPT_ROPT_VERIF"

NCPU = max(1, min(16, os.cpu_count() or 1))


def use_repo_sources() -> None:
    """Make `import ropt` resolve to the current working tree of REPO."""
    src = str(REPO / "src")
    if src in sys.path:
        sys.path.remove(src)
    sys.path.insert(0, src)
    os.environ["PYTHONPATH"] = src
    os.environ.setdefault("PYTHONHASHSEED", "0")
    os.environ[GUARD] = "1"
    for name in [m for m in sys.modules if m == "ropt" or m.startswith("ropt.")]:
        del sys.modules[name]


def canon(obj) -> str:
    return json.dumps(obj, sort_keys=True, default=str)


def case_hash(obj) -> str:
    return hashlib.sha1(canon(obj).encode()).hexdigest()[:16]


def seed_from_env(default: int = 0) -> int:
    try:
        return int(os.environ.get("VERIF_SEED", default))
    except ValueError:
        return default
