"""Generic check runner (DESIGN 2.4).

A property module `props/Cxx.py` provides:

  ID            "Cxx"
  THEOREM_FILE  "Props/Cxx.v"           (statements + Print Assumptions)
  CHK_MODULE    "Check.Chk_Cxx"         (Coq module with the case type and checker)
  CASE_TYPE     "Chk_Cxx.case"          CHECK_FN "Chk_Cxx.check_case"
  SHARD_SIZE    cases per coqc run      HEADER  extra Coq text put before the case list
  RULE          how cases are generated and what makes one non-trivial (evidence text)
  ASSUMPTIONS   list[str]               TRUSTED  list[str] (property-specific trusted base)
  ALLOWED_AXIOMS  list[str]  axioms (standard library only) a theorem may depend on
  PARALLEL      run run_impl in a process pool (default True)
  gen_cases(tier, rng) -> iterable of JSON-able case dicts
  run_impl(case) -> JSON-able observation (runs the REAL ropt code from REPO/src)
  coq_case(case, obs) -> Gallina term of type CASE_TYPE
  oracle(case, obs) -> None | {"clause": str, "detail": ...}   property predicate evaluated on
                       the implementation's output, independent of the model
  nontrivial(case, obs) -> bool
  features(case, obs) -> dict[str, hashable]   (input distribution for the evidence)
  known_signature(case, obs, violation) -> id of a known finding this failure matches, or None
  shrink(case) -> iterable of smaller candidate cases           (optional)
  search(rng, case) -> iterable of extra cases near a disagreeing one   (optional)
  translate(repo) -> {relative coq path: text}                  (optional extra generated files)
  extra_obligations(tier) -> list[(name, ok, detail)]           (optional)
"""
from __future__ import annotations

import importlib
import json
import multiprocessing as mp
import os
import random
import re
import shutil
import signal
import sys
import time
import traceback
from collections import Counter
from pathlib import Path

import build
import coqio
import translator
from common import (COQ, CORPUS, EVIDENCE, KNOWN_FILE, NCPU, REPLAYS, REPO, VERIF, WORK, canon,
                    case_hash, use_repo_sources)

CASE_TIMEOUT = 120

BASE_TRUSTED = [
    "Coq 8.16.1 kernel and coqc; vm_compute (the VM) evaluates the correspondence and a few finite-table proofs; native_compute is not used",
    "no Axiom/Parameter/Admitted anywhere in /verif/coq (grepped on every run); Print Assumptions output of every property theorem recorded below",
    "harness/translator.py (fail-closed Python-ast copy of literal constants/tables into Gen/Generated.v, regenerated on every run)",
    "the Python correspondence harness: drivers that call the real ropt code, exact float->Q printing (fractions.Fraction), shard writer and the parser of the `failing` index list; comparison itself is Gallina evaluated by Coq",
    "no extraction (no Extract Constant / Extract Inductive directives)",
]


class _Timeout(Exception):
    pass


def _alarm(signum, frame):
    raise _Timeout()


_MOD = None


def _worker_init(prop_id: str):
    global _MOD
    use_repo_sources()
    _MOD = importlib.import_module(f"props.{prop_id}")


def _worker_run(case):
    signal.signal(signal.SIGALRM, _alarm)
    signal.alarm(getattr(_MOD, "CASE_TIMEOUT", CASE_TIMEOUT))
    try:
        return _MOD.run_impl(case)
    except _Timeout:
        return {"harness_error": "Timeout"}
    except BaseException as e:  # noqa: BLE001 - the observation is the exception class
        return {"harness_error": type(e).__name__, "message": str(e)[:300],
                "trace": traceback.format_exc()[-1500:]}
    finally:
        signal.alarm(0)


def _retry_timeouts(mod, cases, obs):
    """A case that timed out in the (possibly overloaded) pool is run once more, alone, with three times the
    budget, before the time-out is believed (a time-out is reported as `implementation-run-failed`)."""
    slow = [i for i, o in enumerate(obs) if isinstance(o, dict) and o.get("harness_error") == "Timeout"]
    if not slow or len(slow) > 20:
        return obs
    ctx = mp.get_context("fork")
    for i in slow:
        with ctx.Pool(1, initializer=_worker_init_slow, initargs=(mod.ID, 3 * getattr(mod, "CASE_TIMEOUT", CASE_TIMEOUT))) as pool:
            obs[i] = pool.map(_worker_run, [cases[i]])[0]
    return obs


def _worker_init_slow(prop_id: str, timeout: int):
    _worker_init(prop_id)
    _MOD.CASE_TIMEOUT = timeout


def run_impl_all(mod, cases):
    if not cases:
        return []
    if getattr(mod, "PARALLEL", True) and len(cases) > 8:
        ctx = mp.get_context("fork")
        with ctx.Pool(min(NCPU, max(1, len(cases) // 4)), initializer=_worker_init, initargs=(mod.ID,)) as pool:
            obs = pool.map(_worker_run, cases, chunksize=max(1, len(cases) // (NCPU * 8)))
        return _retry_timeouts(mod, cases, list(obs))
    _worker_init(mod.ID)
    return [_worker_run(c) for c in cases]


FINGERPRINTS = VERIF / "harness" / "fingerprints.json"


def source_fingerprint() -> dict:
    """sha1 of every Python source file of the tree under verification (relative path -> digest)."""
    import hashlib
    out = {}
    root = REPO / "src" / "ropt"
    for f in sorted(root.rglob("*.py")):
        if f.name == "version.py":      # generated at install time, not part of the sources
            continue
        out[str(f.relative_to(REPO))] = hashlib.sha1(f.read_bytes()).hexdigest()
    return out


def changed_sources() -> list[str] | None:
    """Files that differ from the fingerprint recorded for the tree the checks were last validated on
    (harness/fingerprints.json, written by `harness/mk_fingerprints`); None when no fingerprint is recorded.
    A difference is NOT an alarm: it only makes the quick tier generate more cases (see Check.run)."""
    if not FINGERPRINTS.exists():
        return None
    try:
        ref = json.loads(FINGERPRINTS.read_text())["files"]
    except Exception:  # noqa: BLE001
        return None
    cur = source_fingerprint()
    return sorted(k for k in set(ref) | set(cur) if ref.get(k) != cur.get(k))


def load_known(prop_id: str):
    data = json.loads(KNOWN_FILE.read_text())
    return {k["id"]: k for k in data.get("known", []) if k["property"] == prop_id}


def parse_assumptions(output: str) -> list[str]:
    """Split coqc output of a Props file into one block per `Print Assumptions`."""
    blocks, cur = [], None
    for line in output.splitlines():
        if line.startswith("Closed under the global context"):
            if cur is not None:
                blocks.append(cur)
                cur = None
            blocks.append("Closed under the global context")
        elif line.startswith("Axioms:"):
            if cur is not None:
                blocks.append(cur)
            cur = line
        elif cur is not None:
            if line.strip() == "" or line.startswith("File ") or line.startswith("Warning"):
                blocks.append(cur)
                cur = None
            else:
                cur += "\n" + line
    if cur is not None:
        blocks.append(cur)
    return blocks


def theorem_names(rel: str) -> tuple[list[str], list[str]]:
    text = build.strip_comments((COQ / rel).read_text())
    thms = re.findall(r"^\s*(?:Theorem|Corollary)\s+([A-Za-z_][\w']*)", text, re.M)
    printed = re.findall(r"^\s*Print Assumptions\s+([A-Za-z_][\w']*)\s*\.", text, re.M)
    return thms, printed


def axioms_in(block: str) -> list[str]:
    if block.startswith("Closed"):
        return []
    names = []
    for line in block.splitlines()[1:]:
        m = re.match(r"^([A-Za-z_][\w.']*)\s*:", line)
        if m:
            names.append(m.group(1))
    return names


class Check:
    def __init__(self, prop_id: str, tier: str, seed: int):
        self.id = prop_id
        self.tier = tier
        self.seed = seed
        self.t0 = time.time()
        self.mod = importlib.import_module(f"props.{prop_id}")
        self.work = WORK / f"{prop_id}-{os.getpid()}"
        self.obligations: list[dict] = []
        self.violations: list[dict] = []
        self.known_hits: dict[str, int] = {}
        self.notes: list[str] = []
        self.cov: dict = {}

    # ---- obligations ------------------------------------------------------------
    def ob(self, name: str, ok: bool, detail: str = ""):
        self.obligations.append({"name": name, "discharged": bool(ok), "detail": detail[-1500:]})
        return ok

    def tree_lock(self, extra):
        """The generated Coq files are shared by all checks.  A run whose tree agrees with what is on disk holds a
        shared lock until it exits; a run that has to rewrite them (another tree: VERIF_REPO, or /repo after such a
        run) waits for exclusivity and keeps it until it exits, so no other run ever sees generated files, or .vo
        files built from them, that belong to a different tree."""
        import fcntl
        WORK.mkdir(exist_ok=True)
        self._lockf = open(WORK / "tree.lock", "a+")
        fcntl.flock(self._lockf, fcntl.LOCK_SH)
        try:
            if not translator.differs_from_disk(extra):
                return
        except Exception:  # noqa: BLE001 - the translator obligation reports the failure
            return
        fcntl.flock(self._lockf, fcntl.LOCK_UN)
        fcntl.flock(self._lockf, fcntl.LOCK_EX)

    def build_and_audit(self) -> bool:
        mod = self.mod
        ok_all = True
        try:
            self.tree_lock(getattr(mod, "translate", None))
            info = translator.run(getattr(mod, "translate", None))
            self.cov["generated"] = info
            self.ob("translator: Gen/Generated.v regenerated from the current /repo sources", True)
        except Exception as e:  # noqa: BLE001
            self.ob("translator: Gen/Generated.v regenerated from the current /repo sources", False, repr(e))
            ok_all = False
        thm_vo = mod.THEOREM_FILE[:-2] + ".vo"
        chk_vo = mod.CHK_MODULE.replace(".", "/") + ".vo"
        rc, log = build.make([chk_vo])
        self.chk_built = rc == 0
        if rc != 0:
            self.notes.append("checker build failed:\n" + log[-3000:])
        rc, log = build.make([thm_vo])
        built = rc == 0
        thms, printed = theorem_names(mod.THEOREM_FILE)
        self.cov["theorems"] = thms
        if not built:
            m = re.search(r'File "\./([^"]+)", line (\d+).*?\n(Error:.*?)(?:\n\n|make|\Z)', log, re.S)
            where = f"{m.group(1)}:{m.group(2)}: {m.group(3)[:600]}" if m else log[-1200:]
            for t in thms:
                self.ob(f"theorem {t}", False, "build of " + mod.THEOREM_FILE + " failed: " + where)
            return False
        # re-check the statement file itself and collect Print Assumptions
        rc, out = coqio.run_coqc(COQ / mod.THEOREM_FILE, timeout=900)
        blocks = parse_assumptions(out)
        allowed = set(getattr(mod, "ALLOWED_AXIOMS", []))
        pa = {}
        for i, t in enumerate(printed):
            pa[t] = blocks[i] if i < len(blocks) else "(no output)"
        self.cov["print_assumptions"] = pa
        for t in thms:
            if rc != 0:
                self.ob(f"theorem {t}", False, out[-800:])
                ok_all = False
            elif t not in pa or pa[t] == "(no output)":
                self.ob(f"theorem {t}", False, "no Print Assumptions output for this theorem")
                ok_all = False
            else:
                bad = [a for a in axioms_in(pa[t]) if a not in allowed]
                ok_all &= self.ob(f"theorem {t}", not bad,
                                  pa[t] if not bad else "depends on axioms outside the allowed list: " + ", ".join(bad))
        hits = build.forbidden_tokens([mod.THEOREM_FILE, mod.CHK_MODULE.replace('.', '/') + '.v'])
        ok_all &= self.ob("no Admitted/admit/Axiom/Parameter/Conjecture/guard switches in the .v files this property depends on", not hits, "; ".join(hits[:10]))
        extra = getattr(mod, "extra_obligations", None)
        if extra:
            for name, ok, detail in extra(self.tier):
                ok_all &= self.ob(name, ok, detail)
        if self.tier == "thorough" and getattr(mod, "COQCHK", True):
            ok_all &= self.coqchk(thm_vo)
        return ok_all

    def coqchk(self, thm_vo: str) -> bool:
        import subprocess
        lib = "Ropt." + thm_vo[:-3].replace("/", ".")
        try:
            p = subprocess.run(["timeout", "1500", "coqchk", "-silent", "-o", "-R", str(COQ), "Ropt", lib],
                               capture_output=True, text=True, cwd=str(COQ))
            out = p.stdout + p.stderr
            m = re.search(r"CONTEXT SUMMARY.*", out, re.S)
            self.cov["coqchk"] = (m.group(0) if m else out)[-3000:]
            return self.ob(f"coqchk -o {lib} (independent re-check of the compiled closure)", p.returncode == 0, out[-800:])
        except Exception as e:  # noqa: BLE001
            return self.ob(f"coqchk -o {lib}", False, repr(e))

    # ---- correspondence ---------------------------------------------------------
    def corpus_cases(self):
        out = []
        d = CORPUS / self.id
        if d.is_dir():
            for f in sorted(d.glob("*.json")):
                data = json.loads(f.read_text())
                for c in (data["cases"] if isinstance(data, dict) and "cases" in data else [data.get("case", data)]):
                    c = dict(c)
                    c.setdefault("_origin", f"corpus/{f.name}")
                    out.append(c)
        return out

    def evaluate(self, cases):
        """Run implementation + Coq checker + oracle on cases. Returns list of records."""
        mod = self.mod
        obs = run_impl_all(mod, cases)
        terms, term_idx, recs = [], [], []
        for i, (c, o) in enumerate(zip(cases, obs)):
            rec = {"case": c, "obs": o, "coq_fail": False, "oracle": None, "harness_error": None}
            if isinstance(o, dict) and "harness_error" in o:
                rec["harness_error"] = o
            else:
                try:
                    terms.append(mod.coq_case(c, o))
                    term_idx.append(i)
                except Exception as e:  # noqa: BLE001
                    rec["harness_error"] = {"harness_error": "coq_case:" + type(e).__name__, "message": str(e)[:300]}
                try:
                    rec["oracle"] = mod.oracle(c, o)
                except Exception as e:  # noqa: BLE001
                    rec["oracle"] = {"clause": "oracle-crashed", "detail": repr(e)[:300]}
            recs.append(rec)
        info = {"shards": 0}
        shards_ok = True
        if terms and self.chk_built:
            self.work.mkdir(parents=True, exist_ok=True)
            sub = self.work / f"b{len(list(self.work.glob('b*')))}"
            sub.mkdir()
            failing, info = coqio.run_shards(sub, getattr(mod, "HEADER", ""), mod.CHK_MODULE, mod.CASE_TYPE,
                                             mod.CHECK_FN, terms, getattr(mod, "SHARD_SIZE", 300))
            if failing is None:
                shards_ok = False
                self.notes.append("shard evaluation failed: " + " | ".join(info["broken_shards"])[:3000])
            else:
                for k in failing:
                    recs[term_idx[k]]["coq_fail"] = True
        elif terms:
            shards_ok = False
        return recs, info, shards_ok

    def classify(self, rec):
        """-> ('ok'|'known'|'violation'|'disagree', payload)"""
        mod = self.mod
        if rec["harness_error"]:
            return "violation", {"clause": "implementation-run-failed", "detail": rec["harness_error"]}
        viol = rec["oracle"]
        if not rec["coq_fail"] and viol is None:
            return "ok", None
        kid = None
        try:
            kid = mod.known_signature(rec["case"], rec["obs"], viol) if hasattr(mod, "known_signature") else None
        except Exception:  # noqa: BLE001
            kid = None
        if kid is not None and kid in self.known:
            return "known", kid
        if viol is not None:
            return "violation", viol
        return "disagree", None

    def shrink(self, rec):
        mod = self.mod
        if not hasattr(mod, "shrink") or rec["oracle"] is None:
            return rec
        clause = rec["oracle"].get("clause")
        cur = rec
        budget = 200
        improved = True
        _worker_init(mod.ID)
        while improved and budget > 0:
            improved = False
            for cand in mod.shrink(cur["case"]):
                budget -= 1
                if budget <= 0:
                    break
                o = _worker_run(cand)
                if isinstance(o, dict) and "harness_error" in o:
                    continue
                try:
                    v = mod.oracle(cand, o)
                except Exception:  # noqa: BLE001
                    continue
                if v is not None and v.get("clause") == clause:
                    cur = {"case": cand, "obs": o, "coq_fail": cur["coq_fail"], "oracle": v, "harness_error": None}
                    improved = True
                    break
        return cur

    def write_replay(self, payload: dict) -> Path:
        REPLAYS.mkdir(exist_ok=True)
        path = REPLAYS / f"{self.id}_{self.tier}_seed{self.seed}_{case_hash(payload)}.json"
        path.write_text(json.dumps(payload, indent=1, default=str))
        return path

    def report_violation(self, payload: dict, no_input: bool = False):
        payload = {"property": self.id, "tier": self.tier, "seed": self.seed,
                   "repo": str(REPO), **payload}
        path = self.write_replay(payload)
        self.violations.append({"replay": str(path), "no_failing_input": no_input,
                                "clause": payload.get("clause")})
        print(f"VIOLATION property={self.id} replay={path}" + (" no-failing-input-found" if no_input else ""),
              flush=True)

    def correspondence(self, cases, proofs_ok: bool):
        mod = self.mod
        recs, info, shards_ok = self.evaluate(cases)
        self.cov["correspondence"] = {"cases": len(cases), **{k: v for k, v in info.items() if k != "broken_shards"}}
        stats = Counter()
        disagree, viols = [], []
        for rec in recs:
            kind, payload = self.classify(rec)
            stats[kind] += 1
            if kind == "known":
                self.known_hits[payload] = self.known_hits.get(payload, 0) + 1
            elif kind == "violation":
                viols.append((rec, payload))
            elif kind == "disagree":
                disagree.append(rec)
        self.cov["correspondence"]["classification"] = dict(stats)
        corr_ok = shards_ok and not viols and not disagree
        self.ob(f"correspondence: implementation == model ({mod.CHECK_FN}) on all generated cases outside known findings",
                corr_ok, f"{len(viols)} violations, {len(disagree)} model disagreements, shards_ok={shards_ok}")
        # -- report violations with a concrete failing input (at most 3 distinct clauses)
        seen = set()
        for rec, v in viols:
            key = v.get("clause")
            if key in seen or len(seen) >= 3:
                continue
            seen.add(key)
            small = self.shrink(rec)
            self.report_violation({"kind": "failing-input", "clause": small["oracle"]["clause"] if small["oracle"] else v.get("clause"),
                                   "detail": small["oracle"] if small["oracle"] else v,
                                   "case": small["case"], "observation": small["obs"],
                                   "model_disagrees": small["coq_fail"]})
        broken = (not proofs_ok) or disagree or not shards_ok
        if broken and not viols:
            # an obligation no longer checks: search for a concrete failing input near the disagreements
            found = self.search(disagree)
            if found is not None:
                rec, v = found
                self.report_violation({"kind": "failing-input", "clause": v.get("clause"), "detail": v,
                                       "case": rec["case"], "observation": rec["obs"],
                                       "model_disagrees": rec["coq_fail"]})
            else:
                failed = [o for o in self.obligations if not o["discharged"]]
                self.report_violation({"kind": "obligation-broken", "clause": "obligation-no-longer-checks",
                                       "obligations": failed,
                                       "disagreeing_cases": [{"case": r["case"], "observation": r["obs"]} for r in disagree[:3]],
                                       "notes": self.notes[-3:]}, no_input=True)
        return recs

    def search(self, disagree):
        mod = self.mod
        if not hasattr(mod, "search"):
            return None
        rng = random.Random(self.seed + 7919)
        extra = []
        for rec in (disagree[:5] or [{"case": None}]):
            for c in mod.search(rng, rec["case"]):
                extra.append(c)
                if len(extra) >= 2000:
                    break
        if not extra:
            return None
        obs = run_impl_all(mod, extra)
        for c, o in zip(extra, obs):
            if isinstance(o, dict) and "harness_error" in o:
                continue
            try:
                v = mod.oracle(c, o)
            except Exception:  # noqa: BLE001
                continue
            if v is not None:
                rec = {"case": c, "obs": o, "coq_fail": False, "oracle": v, "harness_error": None}
                kid = mod.known_signature(c, o, v) if hasattr(mod, "known_signature") else None
                if kid is not None and kid in self.known:
                    continue
                return rec, v
        return None

    # ---- evidence ---------------------------------------------------------------
    def write_evidence(self, recs):
        mod = self.mod
        distinct, feats = set(), Counter()
        for r in recs:
            if r["harness_error"]:
                continue
            try:
                if mod.nontrivial(r["case"], r["obs"]):
                    distinct.add(case_hash({k: v for k, v in r["case"].items() if not k.startswith("_")}))
                if hasattr(mod, "features"):
                    for k, v in mod.features(r["case"], r["obs"]).items():
                        feats[f"{k}={v}"] += 1
            except Exception:  # noqa: BLE001
                pass
        samples = []
        for r in recs[:: max(1, len(recs) // 3)][:3]:
            samples.append({"case": r["case"], "observation": r["obs"]})
        samples = json.loads(json.dumps(samples, default=str))
        n_ob = len(self.obligations)
        n_ok = sum(1 for o in self.obligations if o["discharged"])
        cov = {
            "obligations": n_ob,
            "discharged": n_ok,
            "obligation_list": self.obligations,
            "checker_cmd": f"cd /verif/coq && make {mod.THEOREM_FILE[:-2]}.vo {mod.CHK_MODULE.replace('.', '/')}.vo "
                           f"&& coqc -R . Ropt {mod.THEOREM_FILE}  (kernel check + Print Assumptions); "
                           f"correspondence: coqc on generated shards ending in `Eval vm_compute in (failing {mod.CHECK_FN} 0 cases)`",
            "trusted_base": BASE_TRUSTED + list(getattr(mod, "TRUSTED", [])),
            "evaluations": len(recs),
            "distinct_nontrivial": len(distinct),
            "rule": mod.RULE,
            "samples": samples if samples else [{"note": "no cases were evaluated"}],
            "input_distribution": dict(sorted(feats.items())),
            "exhaustive": bool(getattr(mod, "EXHAUSTIVE", {}).get(self.tier, False)),
            "known_findings_confirmed": self.known_hits,
            "notes": self.notes[-5:],
            **self.cov,
        }
        ev = {
            "property_id": self.id, "tier": self.tier, "seed": self.seed, "level": "proof",
            "coverage": cov,
            "assumptions": list(getattr(mod, "ASSUMPTIONS", [])),
            "wall_s": round(time.time() - self.t0, 2),
            "violations": len(self.violations),
        }
        EVIDENCE.mkdir(parents=True, exist_ok=True)
        tmp = EVIDENCE / f".{self.id}.json.tmp{os.getpid()}"
        tmp.write_text(json.dumps(ev, indent=1, default=str))
        os.replace(tmp, EVIDENCE / f"{self.id}.json")

    # ---- entry points -----------------------------------------------------------
    def run(self) -> int:
        self.known = load_known(self.id)
        recs = []
        try:
            proofs_ok = self.build_and_audit()
            rng = random.Random(self.seed)
            cases = self.corpus_cases()
            for c in self.mod.gen_cases(self.tier, rng):
                cases.append(c)
            # The source differs from the tree the machinery was validated on: no alarm by itself, but the
            # quick tier then spends more effort (two further generator seeds, duplicates removed).
            changed = changed_sources()
            self.cov["source_fingerprint"] = ("no fingerprint recorded" if changed is None else
                                              "matches harness/fingerprints.json" if not changed else
                                              {"differs_in": changed[:20]})
            extra = getattr(self.mod, "ESCALATE", 2)
            if changed and self.tier == "quick" and extra:
                seen = {case_hash({k: v for k, v in c.items() if not k.startswith("_")}) for c in cases}
                n0 = len(cases)
                for i in range(1, extra + 1):
                    for c in self.mod.gen_cases(self.tier, random.Random(self.seed + 7907 * i)):
                        h = case_hash({k: v for k, v in c.items() if not k.startswith("_")})
                        if h not in seen:
                            seen.add(h)
                            cases.append(c)
                self.notes.append(f"source differs from the recorded fingerprint in {len(changed)} file(s): "
                                  f"{len(cases) - n0} additional cases from {extra} further generator seeds")
            recs = self.correspondence(cases, proofs_ok)
            for kid, n in sorted(self.known_hits.items()):
                print(f"KNOWN-FINDING: property={self.id} {kid} ({n} cases) {self.known[kid]['text']}", flush=True)
        finally:
            try:
                self.write_evidence(recs)
            finally:
                shutil.rmtree(self.work, ignore_errors=True)
        n_ok = sum(1 for o in self.obligations if o["discharged"])
        print(f"[{self.id}] tier={self.tier} seed={self.seed} obligations {n_ok}/{len(self.obligations)} "
              f"cases={len(recs)} violations={len(self.violations)} wall={time.time() - self.t0:.1f}s", flush=True)
        return 1 if self.violations else 0

    def replay(self, path: str) -> int:
        self.known = load_known(self.id)
        data = json.loads(Path(path).read_text())
        try:
            proofs_ok = self.build_and_audit()
            if "case" in data:
                cases = [data["case"]]
            else:
                cases = [d["case"] for d in data.get("disagreeing_cases", [])]
            recs = self.correspondence(cases, proofs_ok) if cases or not proofs_ok else []
        finally:
            shutil.rmtree(self.work, ignore_errors=True)
        print(f"[{self.id}] replay {path}: violations={len(self.violations)}", flush=True)
        return 1 if self.violations else 0


def main(argv=None) -> int:
    import argparse
    ap = argparse.ArgumentParser(prog="check")
    ap.add_argument("property")
    ap.add_argument("--tier", choices=["quick", "thorough"], default=None)
    ap.add_argument("--seed", type=int, default=None)
    ap.add_argument("--replay", default=None)
    a = ap.parse_args(argv)
    tier = a.tier or os.environ.get("VERIF_TIER") or "quick"
    if tier not in ("quick", "thorough"):
        tier = "quick"
    seed = a.seed if a.seed is not None else int(os.environ.get("VERIF_SEED", "0") or 0)
    use_repo_sources()
    chk = Check(a.property, tier, seed)
    if a.replay:
        return chk.replay(a.replay)
    return chk.run()


if __name__ == "__main__":
    sys.exit(main())
