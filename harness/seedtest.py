#!/venv/bin/python
"""Validate a seeded change and run checks against it, in a scratch worktree (never in /repo).

usage: harness/seedtest.py <dir with patch.diff, demo.py, meta.json> [--checks C01,C03] [--skip-tests] [--tier quick]

Steps: (1) demo.py on clean HEAD must exit 0; (2) patch applies; demo.py on the patched tree must exit
non-zero; (3) the full baseline suite must still pass on the patched tree; (4) each named check is run with
VERIF_REPO pointing at the patched tree and must print a VIOLATION line and exit 1.  Prints a JSON summary.
"""
import argparse
import json
import os
import re
import subprocess
import sys
import tempfile
from pathlib import Path

VERIF = Path(__file__).resolve().parent.parent


def sh(cmd, cwd=None, env=None, timeout=3600):
    p = subprocess.run(cmd, shell=True, cwd=cwd, env=env, capture_output=True, text=True, timeout=timeout)
    return p.returncode, p.stdout + p.stderr


def main():
    ap = argparse.ArgumentParser()
    ap.add_argument("seed_dir")
    ap.add_argument("--checks", default=None)
    ap.add_argument("--skip-tests", action="store_true")
    ap.add_argument("--tier", default="quick")
    ap.add_argument("--seed", default="0")
    ap.add_argument("--keep", action="store_true", help="copy into /verif/seeded/<name>/ when the change is confirmed")
    a = ap.parse_args()
    d = Path(a.seed_dir).resolve()
    meta = json.loads((d / "meta.json").read_text())
    checks = a.checks.split(",") if a.checks else [meta["property"]]
    wt = Path(tempfile.mkdtemp(prefix="st-", dir="/tmp"))
    os.rmdir(wt)
    out = {"seed_dir": str(d), "property": meta["property"], "checks": {}}
    try:
        rc, log = sh(f"git -C /repo worktree add -f {wt} HEAD -q")
        if rc:
            out["error"] = "worktree: " + log
            return out
        env = dict(os.environ, PYTHONPATH=f"{wt}/src", PYTHONHASHSEED="0")
        rc, log = sh(f"/venv/bin/python {d}/demo.py", cwd=wt, env=env, timeout=900)
        out["demo_on_head_exit"] = rc
        rc, log = sh(f"git apply {d}/patch.diff", cwd=wt)
        out["patch_applies"] = rc == 0
        if rc:
            out["error"] = log[-500:]
            return out
        rc, log = sh(f"/venv/bin/python {d}/demo.py", cwd=wt, env=env, timeout=900)
        out["demo_on_patched_exit"] = rc
        out["demo_tail"] = log[-300:]
        if not a.skip_tests:
            rc, log = sh("/venv/bin/python -m pytest -q -p no:cacheprovider --timeout=900 2>&1 | tail -2", cwd=wt, env=env, timeout=1800)
            m = re.search(r"(\d+) passed", log)
            out["tests_passed"] = int(m.group(1)) if m else 0
            out["tests_failed"] = "failed" in log or "error" in log.lower()
        for c in checks:
            env2 = dict(os.environ, VERIF_REPO=str(wt), VERIF_SEED=a.seed)
            rc, log = sh(f"./check {c} --tier {a.tier}", cwd=VERIF, env=env2, timeout=3600)
            viol = [l for l in log.splitlines() if l.startswith("VIOLATION")]
            out["checks"][c] = {"exit": rc, "violations": viol[:3], "tail": log[-300:] if not viol else ""}
        confirmed = (out.get("demo_on_head_exit") == 0 and out.get("demo_on_patched_exit", 0) != 0
                     and (a.skip_tests or (out.get("tests_passed", 0) >= 209 and not out.get("tests_failed"))))
        out["confirmed"] = confirmed
        if a.keep and confirmed:
            import shutil
            dest = VERIF / "seeded" / d.name
            dest.mkdir(parents=True, exist_ok=True)
            for f in ("patch.diff", "demo.py"):
                if (d / f).resolve() != (dest / f).resolve():
                    shutil.copy(d / f, dest / f)
            meta2 = dict(meta)
            meta2.pop("verified", None)
            meta2["verified"] = {
                "how": "harness/seedtest.py: scratch worktree of /repo HEAD; demo.py on HEAD, patch applied, demo.py again, full baseline suite, then the named checks with VERIF_REPO=<worktree>",
                "repo_head": sh("git -C /repo rev-parse --short HEAD")[1].strip(),
                "demo_on_head_exit": out["demo_on_head_exit"], "demo_on_patched_exit": out["demo_on_patched_exit"],
                "baseline_tests_passed_with_patch": out.get("tests_passed"),
                "checks": {c: {"exit": r["exit"], "detected": bool(r["violations"]),
                               "violation_lines": [re.sub(r"replay=\S*/", "replay=", v) for v in r["violations"]]}
                           for c, r in out["checks"].items()},
            }
            (dest / "meta.json").write_text(json.dumps(meta2, indent=1) + "\n")
            out["kept"] = str(dest)
        return out
    finally:
        sh(f"git -C /repo worktree remove --force {wt}")
        print(json.dumps(out, indent=1))


if __name__ == "__main__":
    main()
