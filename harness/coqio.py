"""Gallina literal printing, shard writing, coqc runner and result parsing.

All Coq text is produced from plain (non-escaped) strings; floats are printed as their
exact rational value, so the model sees precisely the numbers the implementation saw.
"""
from __future__ import annotations

import math
import re
import subprocess
from concurrent.futures import ThreadPoolExecutor
from fractions import Fraction
from pathlib import Path

from common import COQ, NCPU

COQC_TIMEOUT = 600


# ---- literals -------------------------------------------------------------------
def z(n: int) -> str:
    n = int(n)
    return f"({n})%Z" if n < 0 else f"{n}%Z"


def nat(n: int) -> str:
    n = int(n)
    if n < 0 or n > 5000:
        raise ValueError(f"nat literal out of range: {n}")
    return f"{n}%nat"


def pos(n: int) -> str:
    return f"{int(n)}%positive"


def q(x) -> str:
    """Exact rational value of a finite float / int / Fraction as `(Q_ n d)`."""
    if isinstance(x, Fraction):
        f = x
    else:
        x = float(x)
        if math.isnan(x) or math.isinf(x):
            raise ValueError(f"not finite: {x}")
        f = Fraction(x)
    n, d = f.numerator, f.denominator
    return f"(Q_ ({n}) {d})" if n < 0 else f"(Q_ {n} {d})"


def oq(x) -> str:
    """NaN -> None, finite -> Some q."""
    x = float(x)
    if math.isnan(x):
        return "None"
    return f"(Some {q(x)})"


def er(x) -> str:
    """Extended real: -inf | finite | +inf."""
    x = float(x)
    if math.isnan(x):
        raise ValueError("nan is not an extended real")
    if math.isinf(x):
        return "PInf" if x > 0 else "NInf"
    return f"(Fin {q(x)})"


def b(x) -> str:
    return "true" if x else "false"


def s(text: str) -> str:
    """Coq string literal (doubles embedded quotes)."""
    text = str(text)
    if any(ord(c) < 32 or ord(c) > 126 for c in text):
        raise ValueError(f"non-printable character in {text!r}")
    return '"' + text.replace('"', '""') + '"%string'


def lst(items) -> str:
    items = list(items)
    return "[" + "; ".join(items) + "]"


def opt(x, f) -> str:
    return "None" if x is None else f"(Some {f(x)})"


def qs(xs) -> str:
    return lst(q(x) for x in xs)


def oqs(xs) -> str:
    return lst(oq(x) for x in xs)


def ers(xs) -> str:
    return lst(er(x) for x in xs)


def bs(xs) -> str:
    return lst(b(x) for x in xs)


def nats(xs) -> str:
    return lst(nat(x) for x in xs)


def zs(xs) -> str:
    return lst(z(x) for x in xs)


def qmat(m) -> str:
    return lst(qs(r) for r in m)


def oqmat(m) -> str:
    return lst(oqs(r) for r in m)


def tup(*items) -> str:
    return "(" + ", ".join(items) + ")"


# ---- shards ---------------------------------------------------------------------
DEFAULT_HEADER = """From Coq Require Import QArith ZArith List String Bool.
From Ropt Require Import Base.Num Base.ListX.
Import ListNotations.
"""


def write_shard(path: Path, header: str, chk_module: str, case_type: str, check_fn: str,
                case_terms: list[str]) -> None:
    with open(path, "w") as f:
        f.write(DEFAULT_HEADER)
        f.write(f"From Ropt Require Import {chk_module}.\n")
        if header:
            f.write(header + "\n")
        f.write(f"Definition cases : list ({case_type}) := [\n")
        f.write(";\n".join(case_terms))
        f.write("\n].\n")
        f.write(f"Eval vm_compute in (failing ({check_fn}) 0 cases).\n")


def run_coqc(path: Path, timeout: int = COQC_TIMEOUT) -> tuple[int, str]:
    """Compile one file against the built project; returns (exit code, combined output)."""
    cmd = ["timeout", str(timeout), "coqc", "-q", "-R", str(COQ), "Ropt", str(path)]
    try:
        p = subprocess.run(cmd, capture_output=True, text=True, cwd=str(path.parent),
                           timeout=timeout + 30)
        return p.returncode, p.stdout + p.stderr
    except subprocess.TimeoutExpired:
        return 124, "coqc timed out"


_RESULT_RE = re.compile(r"=\s*(\[[^\]]*\])\s*(?:%\w+)?\s*:\s*list nat", re.S)


def parse_failing(output: str) -> list[int] | None:
    """Indices printed by `Eval vm_compute in (failing ...)`; None if not found."""
    m = _RESULT_RE.search(output)
    if not m:
        return None
    return [int(t) for t in re.findall(r"\d+", m.group(1))]


def run_shards(workdir: Path, header: str, chk_module: str, case_type: str, check_fn: str,
               case_terms: list[str], shard_size: int) -> tuple[list[int] | None, dict]:
    """Write the cases into shards, compile them in parallel, return failing global indices.

    Returns (failing indices or None when some shard could not be evaluated, info)."""
    shards = []
    for k in range(0, len(case_terms), shard_size):
        path = workdir / f"cases_{len(shards):04d}.v"
        write_shard(path, header, chk_module, case_type, check_fn, case_terms[k:k + shard_size])
        shards.append((k, path))
    failing: list[int] = []
    broken: list[str] = []

    def one(item):
        base, path = item
        rc, out = run_coqc(path)
        res = parse_failing(out) if rc == 0 else None
        return base, path, rc, out, res

    with ThreadPoolExecutor(max_workers=NCPU) as ex:
        results = list(ex.map(one, shards))
    for base, path, rc, out, res in results:
        if res is None and rc == 124:
            # timed out while the machine was busy: once more, alone, with three times the budget
            rc, out = run_coqc(path, timeout=3 * COQC_TIMEOUT)
            res = parse_failing(out) if rc == 0 else None
        if res is None:
            broken.append(f"{path.name}: rc={rc}: {out[-2000:]}")
        else:
            failing.extend(base + i for i in res)
    info = {"shards": len(shards), "shard_size": shard_size, "broken_shards": broken}
    if broken:
        return None, info
    return sorted(failing), info
