#!/bin/sh
# harness/runall.sh [tier] [seed] : run every claimed check sequentially, summarise (dev convenience).
cd "$(dirname "$0")/.."
TIER=${1:-quick}; SEED=${2:-0}
for id in $(/venv/bin/python -c "import json;print(' '.join(c['property_id'] for c in json.load(open('MANIFEST.json'))['checks']))"); do
  start=$(date +%s)
  VERIF_SEED=$SEED ./check $id --tier $TIER > .work/runall_$id.log 2>&1; rc=$?
  end=$(date +%s)
  echo "$id exit=$rc $((end-start))s $(grep -c '^VIOLATION' .work/runall_$id.log) violations $(grep -c '^KNOWN-FINDING' .work/runall_$id.log) known | $(tail -1 .work/runall_$id.log)"
done
