"""Regenerate /verif/MANIFEST.json from the property modules that exist (run by hand after adding one)."""
import importlib
import json
import sys
from pathlib import Path

HERE = Path(__file__).resolve().parent
sys.path.insert(0, str(HERE))
VERIF = HERE.parent

PENDING_REASON = {}
if (VERIF / "harness" / "pending.json").exists():
    PENDING_REASON = json.loads((VERIF / "harness" / "pending.json").read_text())

props = [json.loads(l) for l in (VERIF / "properties.jsonl").read_text().splitlines() if l.strip()]
checks, na = [], []
for p in props:
    pid = p["id"]
    f = HERE / "props" / f"{pid}.py"
    mod = None
    if f.exists():
        mod = importlib.import_module(f"props.{pid}")
    if mod is not None and hasattr(mod, "MANIFEST") and not getattr(mod, "DISABLED", False) and pid not in PENDING_REASON:
        m = mod.MANIFEST
        checks.append({
            "property_id": pid,
            "quick_cmd": f"./check {pid} --tier quick",
            "thorough_cmd": f"./check {pid} --tier thorough",
            "evidence_file": f"/verif/evidence/{pid}.json",
            "replay_cmd_template": f"./check {pid} --replay {{path}}",
            "engine": "coq-proof+correspondence",
            "level_claimed": {"category": "proof", "text": m["level_text"], "design_ref": m.get("design_ref", "DESIGN.md section 4")},
            "level_note": m["level_note"],
            "technique": m["technique"],
        })
    else:
        na.append({"property_id": pid, "reason": PENDING_REASON.get(pid, "check not built yet in this session (designed in DESIGN.md section 4; not a claim of inapplicability)")})

manifest = {
    "version": 1,
    "setup_cmd": "./setup.sh",
    "hooks": {
        "guard": "TNO_ROPT_ROPT_VERIF",
        "enable": "no hooks are needed: checks import /repo/src directly (PYTHONPATH=/repo/src) and observe public APIs; the guard variable is set by the harness but no /repo code reads it",
        "baseline_off_cmd": "cd /repo && /venv/bin/python -m pytest -ra -q -p no:cacheprovider --timeout=900 --continue-on-collection-errors",
        "source_commits": [],
        "add_only": True,
    },
    "engines": [{
        "name": "coq-proof+correspondence",
        "path": "/verif/check",
        "serves_properties": [c["property_id"] for c in checks],
        "kind_free_text": "Coq 8.16.1 theorems about hand-written executable Gallina models (coq/), tied to /repo on every run by a translator for constants/tables (harness/translator.py) and an in-Coq differential correspondence (harness/runner.py + harness/props/*.py)",
    }],
    "checks": checks,
    "notes": "See DESIGN.md. Known findings are listed in known_findings.json; fix: commits in /repo are recorded there as fixed entries.",
    "not_applicable": na,
}
(VERIF / "MANIFEST.json").write_text(json.dumps(manifest, indent=1) + "\n")
print(f"{len(checks)} checks, {len(na)} not claimed")
