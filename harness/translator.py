"""Fail-closed Python-`ast` translator: /repo sources -> coq/Gen/Generated.v.

Only things that are *literal in the source* and that theorems are instantiated with are
extracted: numeric constants, string tables, enum values.  Every expression goes through
`ev`, a tiny evaluator for a closed set of AST shapes; anything else raises
TranslatorError (never guesses).  The file is rewritten only when its content changed,
so `make` stays incremental.  Property modules may add further generated files through
a `translate(repo) -> {relative path: text}` function (same rules).
"""
from __future__ import annotations

import ast
from fractions import Fraction
from pathlib import Path

from common import COQ, REPO


class TranslatorError(Exception):
    pass


def parse(rel: str) -> ast.Module:
    path = REPO / "src" / "ropt" / rel
    try:
        return ast.parse(path.read_text(), filename=str(path))
    except (OSError, SyntaxError) as e:
        raise TranslatorError(f"cannot parse {path}: {e}") from e


def module_assign(tree: ast.Module, name: str) -> ast.expr:
    """The value expression of the unique module-level assignment to `name`."""
    found = []
    for node in tree.body:
        if isinstance(node, ast.Assign) and len(node.targets) == 1:
            t = node.targets[0]
            if isinstance(t, ast.Name) and t.id == name:
                found.append(node.value)
        elif isinstance(node, ast.AnnAssign) and isinstance(node.target, ast.Name):
            if node.target.id == name and node.value is not None:
                found.append(node.value)
    if len(found) != 1:
        raise TranslatorError(f"expected exactly one module-level assignment to {name}, found {len(found)}")
    return found[0]


def ev(node: ast.expr, env: dict):
    """Evaluate a literal-ish expression.  Supported: constants, unary minus, set/list/tuple
    displays, dict displays (-> list of keys), `name.lower()`, comprehensions over a literal
    sequence with element `x` or `x.lower()`, `a | b` on sets, `set(<dict>.keys())`,
    names bound in env, and `Enum.MEMBER` attribute references (returned as 'Enum.MEMBER')."""
    if isinstance(node, ast.Constant) and isinstance(node.value, (int, float, str)) and not isinstance(node.value, bool):
        return node.value
    if isinstance(node, ast.UnaryOp) and isinstance(node.op, ast.USub):
        v = ev(node.operand, env)
        if isinstance(v, (int, float)):
            return -v
    if isinstance(node, (ast.Set, ast.List, ast.Tuple)):
        vals = [ev(e, env) for e in node.elts]
        return set(vals) if isinstance(node, ast.Set) else vals
    if isinstance(node, ast.Dict):
        if any(k is None for k in node.keys):
            raise TranslatorError("dict unpacking not supported")
        return {"__dict_keys__": [ev(k, env) for k in node.keys]}
    if isinstance(node, ast.Name) and node.id in env:
        return env[node.id]
    if isinstance(node, ast.Attribute) and isinstance(node.value, ast.Name) and node.value.id[:1].isupper():
        return f"{node.value.id}.{node.attr}"
    if isinstance(node, ast.Call) and isinstance(node.func, ast.Attribute) and node.func.attr == "lower" and not node.args:
        v = ev(node.func.value, env)
        if isinstance(v, str):
            return v.lower()
    if isinstance(node, (ast.SetComp, ast.ListComp)) and len(node.generators) == 1:
        g = node.generators[0]
        if isinstance(g.target, ast.Name) and not g.ifs and not g.is_async:
            seq = ev(g.iter, env)
            if isinstance(seq, (list, set)):
                out = [ev(node.elt, {**env, g.target.id: item}) for item in sorted(seq, key=str)] \
                    if isinstance(seq, set) else [ev(node.elt, {**env, g.target.id: item}) for item in seq]
                return set(out) if isinstance(node, ast.SetComp) else out
    if isinstance(node, ast.BinOp) and isinstance(node.op, ast.BitOr):
        a, c = ev(node.left, env), ev(node.right, env)
        if isinstance(a, set) and isinstance(c, set):
            return a | c
    if isinstance(node, ast.Call) and isinstance(node.func, ast.Name) and node.func.id == "set" and len(node.args) == 1:
        arg = node.args[0]
        if isinstance(arg, ast.Call) and isinstance(arg.func, ast.Attribute) and arg.func.attr == "keys" and not arg.args:
            d = ev(arg.func.value, env)
            if isinstance(d, dict) and "__dict_keys__" in d:
                return set(d["__dict_keys__"])
    raise TranslatorError(f"unsupported expression at line {getattr(node, 'lineno', '?')}: {ast.dump(node)[:200]}")


def const(tree, name, env=None):
    return ev(module_assign(tree, name), env or {})


def int_enum(tree: ast.Module, cls: str) -> list[tuple[str, int]]:
    for node in tree.body:
        if isinstance(node, ast.ClassDef) and node.name == cls:
            out = []
            for st in node.body:
                if isinstance(st, ast.Assign) and len(st.targets) == 1 and isinstance(st.targets[0], ast.Name):
                    v = ev(st.value, {})
                    if not isinstance(v, int):
                        raise TranslatorError(f"{cls}.{st.targets[0].id} is not an int literal")
                    out.append((st.targets[0].id, v))
            if not out:
                raise TranslatorError(f"enum {cls} has no members")
            return out
    raise TranslatorError(f"class {cls} not found")


def method_membership_set(tree: ast.Module, cls: str, method: str, env=None) -> set:
    """The set S of `return <x>.lower() in S` in cls.method (shape checked)."""
    for node in tree.body:
        if isinstance(node, ast.ClassDef) and node.name == cls:
            for st in node.body:
                if isinstance(st, ast.FunctionDef) and st.name == method:
                    rets = [s for s in ast.walk(st) if isinstance(s, ast.Return)]
                    if len(rets) != 1 or not isinstance(rets[0].value, ast.Compare):
                        raise TranslatorError(f"{cls}.{method}: expected a single `return x in S`")
                    cmp = rets[0].value
                    if len(cmp.ops) != 1 or not isinstance(cmp.ops[0], ast.In):
                        raise TranslatorError(f"{cls}.{method}: expected `in`")
                    left = cmp.left
                    if not (isinstance(left, ast.Call) and isinstance(left.func, ast.Attribute) and left.func.attr == "lower"):
                        raise TranslatorError(f"{cls}.{method}: the method name is not lower-cased before the test")
                    v = ev(cmp.comparators[0], env or {})
                    if isinstance(v, dict):
                        v = set(v["__dict_keys__"])
                    if not isinstance(v, set):
                        raise TranslatorError(f"{cls}.{method}: not a set")
                    return v
    raise TranslatorError(f"{cls}.{method} not found")


# ---- Coq printing ---------------------------------------------------------------
def cq(x) -> str:
    f = Fraction(x)
    n, d = f.numerator, f.denominator
    return f"(Q_ ({n}) {d})" if n < 0 else f"(Q_ {n} {d})"


def cstr(s: str) -> str:
    if '"' in s or any(ord(c) < 32 or ord(c) > 126 for c in s):
        raise TranslatorError(f"unprintable string {s!r}")
    return f'"{s}"%string'


def cstrs(xs) -> str:
    return "[" + "; ".join(cstr(x) for x in sorted(xs)) + "]"


def write_if_changed(path: Path, text: str) -> bool:
    if path.exists() and path.read_text() == text:
        return False
    path.parent.mkdir(parents=True, exist_ok=True)
    path.write_text(text)
    return True


def generate() -> str:
    out = ["(* GENERATED on every run by harness/translator.py from /repo sources -- do not edit. *)",
           "From Coq Require Import QArith ZArith List String.",
           "From Ropt Require Import Base.Num.",
           "Import ListNotations.", ""]

    g = parse("ensemble_evaluator/_gradient.py")
    svd = const(g, "SVD_TOLERANCE")
    mir = const(g, "MIRROR_REPEAT")
    if not isinstance(svd, float) or not isinstance(mir, int) or mir < 0 or mir > 1000:
        raise TranslatorError("SVD_TOLERANCE / MIRROR_REPEAT have unexpected types")
    out += [f"Definition svd_tolerance : Q := {cq(svd)}.   (* {svd!r} *)",
            f"Definition mirror_repeat : nat := {mir}%nat.", ""]

    fe = parse("plugins/function_estimator/default.py")
    msr = const(fe, "_MIN_STDDEV_REALIZATIONS")
    if not isinstance(msr, int) or not 0 <= msr <= 1000:
        raise TranslatorError("_MIN_STDDEV_REALIZATIONS")
    out += [f"Definition min_stddev_realizations : nat := {msr}%nat.",
            f"Definition function_estimator_methods : list string := "
            f"{cstrs(method_membership_set(fe, 'DefaultFunctionEstimatorPlugin', 'is_supported'))}.", ""]

    rf = parse("plugins/realization_filter/default.py")
    out += [f"Definition realization_filter_methods : list string := "
            f"{cstrs(method_membership_set(rf, 'DefaultRealizationFilterPlugin', 'is_supported'))}.", ""]

    en = parse("enums.py")
    for cls in ("BoundaryType", "PerturbationType", "EventType", "OptimizerExitCode"):
        members = int_enum(en, cls)
        out.append(f"Definition enum_{cls} : list (string * Z) := ["
                   + "; ".join(f"({cstr(n)}, {v}%Z)" for n, v in members) + "].")
    out.append("")
    enum_values = {f"{cls}.{n}": v for cls in ("BoundaryType", "PerturbationType") for n, v in int_enum(en, cls)}

    cs = parse("config/enopt/constants.py")
    seed = const(cs, "DEFAULT_SEED")
    npert = const(cs, "DEFAULT_NUMBER_OF_PERTURBATIONS")
    mag = const(cs, "DEFAULT_PERTURBATION_MAGNITUDE")
    bt = const(cs, "DEFAULT_PERTURBATION_BOUNDARY_TYPE")
    pt = const(cs, "DEFAULT_PERTURBATION_TYPE")
    if bt not in enum_values or pt not in enum_values:
        raise TranslatorError("default boundary / perturbation type is not an enum member")
    out += [f"Definition default_seed : Z := {int(seed)}%Z.",
            f"Definition default_number_of_perturbations : nat := {int(npert)}%nat.",
            f"Definition default_perturbation_magnitude : Q := {cq(mag)}.   (* {mag!r} *)",
            f"Definition default_boundary_type : Z := {enum_values[bt]}%Z.   (* {bt} *)",
            f"Definition default_perturbation_type : Z := {enum_values[pt]}%Z.   (* {pt} *)", ""]

    sp = parse("plugins/optimizer/scipy.py")
    tables = {}
    for name in ("_SUPPORTED_METHODS", "_CONSTRAINT_REQUIRES_BOUNDS", "_CONSTRAINT_SUPPORT_BOUNDS",
                 "_CONSTRAINT_SUPPORT_LINEAR_EQ", "_CONSTRAINT_SUPPORT_LINEAR_INEQ",
                 "_CONSTRAINT_SUPPORT_NONLINEAR_EQ", "_CONSTRAINT_SUPPORT_NONLINEAR_INEQ", "_NO_GRADIENT"):
        v = const(sp, name)
        if not isinstance(v, set) or not all(isinstance(x, str) for x in v):
            raise TranslatorError(f"{name} is not a set of strings")
        tables[name] = v
        out.append(f"Definition scipy{name.lower()} : list string := {cstrs(v)}.")
    opt_sup = method_membership_set(sp, "SciPyOptimizerPlugin", "is_supported", {"_SUPPORTED_METHODS": tables["_SUPPORTED_METHODS"]})
    out += [f"Definition scipy_optimizer_plugin_methods : list string := {cstrs(opt_sup)}.", ""]

    ss = parse("plugins/sampler/scipy.py")
    stats = const(ss, "_STATS_SAMPLERS", {})
    qmc = const(ss, "_QMC_ENGINES", {})
    sup = const(ss, "_SUPPORTED_METHODS", {"_STATS_SAMPLERS": stats, "_QMC_ENGINES": qmc})
    smp_sup = method_membership_set(ss, "SciPySamplerPlugin", "is_supported", {"_SUPPORTED_METHODS": sup})
    out += [f"Definition sampler_stats_methods : list string := {cstrs(stats['__dict_keys__'])}.",
            f"Definition sampler_qmc_methods : list string := {cstrs(qmc['__dict_keys__'])}.",
            f"Definition scipy_sampler_plugin_methods : list string := {cstrs(smp_sup)}.", ""]

    pl = parse("plugins/plan/default.py")
    steps = const(pl, "_STEP_OBJECTS", {})
    handlers = const(pl, "_RESULT_HANDLER_OBJECTS", {})
    if method_membership_set(pl, "DefaultPlanStepPlugin", "is_supported", {"_STEP_OBJECTS": steps}) != set(steps["__dict_keys__"]):
        raise TranslatorError("plan step plug-in support set differs from _STEP_OBJECTS")
    if method_membership_set(pl, "DefaultPlanHandlerPlugin", "is_supported", {"_RESULT_HANDLER_OBJECTS": handlers}) != set(handlers["__dict_keys__"]):
        raise TranslatorError("plan handler plug-in support set differs from _RESULT_HANDLER_OBJECTS")
    out += [f"Definition plan_step_methods : list string := {cstrs(steps['__dict_keys__'])}.",
            f"Definition plan_handler_methods : list string := {cstrs(handlers['__dict_keys__'])}.", ""]

    ex = parse("plugins/optimizer/external.py")
    pt_ = const(ex, "_PROCESS_TIMEOUT")
    if not isinstance(pt_, (int, float)) or pt_ <= 0:
        raise TranslatorError("_PROCESS_TIMEOUT")
    out += [f"Definition process_timeout : Q := {cq(pt_)}.",
            f"Definition plugin_binary : string := {cstr(const(ex, '_PLUGIN_BINARY'))}.", ""]
    return "\n".join(out)


def texts(extra=None) -> dict:
    """relative path -> generated text, nothing written"""
    out = {"Gen/Generated.v": generate()}
    if extra is not None:
        out.update(extra(REPO))
    return out


def differs_from_disk(extra=None) -> bool:
    return any(not (COQ / rel).exists() or (COQ / rel).read_text() != t for rel, t in texts(extra).items())


def run(extra=None) -> dict:
    """Regenerate Gen/Generated.v (+ extra files of a property module). Returns info; raises TranslatorError."""
    info = {}
    for rel, t in texts(extra).items():
        c = write_if_changed(COQ / rel, t)
        info[rel.split("/", 1)[1] if rel == "Gen/Generated.v" else rel] = {"changed": c, "bytes": len(t)}
    return info


if __name__ == "__main__":
    print(run())
