#!/venv/bin/python
"""Regenerate the per-property "as built" section of DESIGN.md (between the ASBUILT markers) from what the
machinery itself declares: theorem names of coq/Props/Cxx.v, MANIFEST/RULE/ASSUMPTIONS/TRUSTED of
harness/props/Cxx.py, and the latest evidence file."""
import importlib
import json
import re
import sys
import textwrap
from pathlib import Path

HERE = Path(__file__).resolve().parent
VERIF = HERE.parent
sys.path.insert(0, str(HERE))
import build  # noqa: E402

props = [json.loads(l) for l in (VERIF / "properties.jsonl").read_text().splitlines() if l.strip()]
out = []
for p in props:
    pid = p["id"]
    mod = importlib.import_module(f"props.{pid}")
    text = build.strip_comments((VERIF / "coq" / mod.THEOREM_FILE).read_text())
    thms = re.findall(r"^\s*(?:Theorem|Corollary)\s+([A-Za-z_][\w']*)", text, re.M)
    ev = {}
    f = VERIF / "evidence" / f"{pid}.json"
    if f.exists():
        ev = json.loads(f.read_text())
    cov = ev.get("coverage", {})
    m = mod.MANIFEST

    def wrap(s, ind="  "):
        return "\n".join(textwrap.wrap(re.sub(r"\s+", " ", s), 112, initial_indent=ind, subsequent_indent=ind))
    out.append(f"### {pid} — {p['title']}\n")
    out.append(f"* **Theorems** (`coq/{mod.THEOREM_FILE}`, {len(thms)}; each `Print Assumptions`: Closed under the global context): "
               + ", ".join(f"`{t}`" for t in thms) + ".")
    out.append("* **Claim.**\n" + wrap(m["level_text"]))
    out.append("* **Trusted / partial.**\n" + wrap(m["level_note"]))
    out.append("* **Correspondence cases.**\n" + wrap(mod.RULE))
    if cov:
        out.append(f"* **Last run recorded** ({ev.get('tier')}, seed {ev.get('seed')}): {cov.get('evaluations')} cases, "
                   f"{cov.get('distinct_nontrivial')} distinct non-trivial, obligations {cov.get('discharged')}/{cov.get('obligations')}, "
                   f"{ev.get('wall_s')} s.")
    audit = VERIF / "design_notes" / f"audit_{pid}.md"
    if audit.exists():
        out.append(f"* **Clause-by-clause audit** (statement clause → theorem → checker/oracle clause → generator stream, gaps, "
                   f"regressions tried): `design_notes/audit_{pid}.md`.")
    out.append("")
block = "\n".join(out)
p = VERIF / "DESIGN.md"
s = p.read_text()
a, b = "<!-- ASBUILT-BEGIN -->", "<!-- ASBUILT-END -->"
if a in s:
    s = s[: s.index(a) + len(a)] + "\n" + block + s[s.index(b):]
    p.write_text(s)
    print("as-built section updated:", len(props), "properties,", len(block.splitlines()), "lines")
else:
    print(block[:3000])
