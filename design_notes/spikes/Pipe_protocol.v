From Coq Require Import List Bool Arith Lia. Import ListNotations.
(* C20: the parent/child request protocol at message granularity *)
Inductive cmsg := MConfig | MInitial | MEval (id : nat) | MError.
Inductive evres := EvOk | EvAbort (code : nat) | EvRaise.            (* what the user's evaluator does for evaluation id *)
Inductive outcome := Finished | ExitCode (code : nat) | Raised.
Inductive cend := EndOk | EndKilled.                                  (* how the child process ended *)

(* the child sends its script; a crash point k kills it before it sends message number k *)
Definition child (script : list cmsg) (k : option nat) : list cmsg * cend :=
  match k with
  | Some k => if Nat.ltb k (length script) then (firstn k script, EndKilled) else (script, EndOk)
  | None => (script, EndOk)
  end.
(* the parent handles the received messages in order; trace = evaluations performed *)
Fixpoint parent (evalf : nat -> evres) (msgs : list cmsg) (e : cend) (trace : list nat) : outcome * list nat :=
  match msgs with
  | [] => (match e with EndOk => Finished | EndKilled => Raised end, trace)   (* return code checked after the loop *)
  | MConfig :: t | MInitial :: t => parent evalf t e trace
  | MEval id :: t => match evalf id with
                     | EvOk => parent evalf t e (trace ++ [id])
                     | EvAbort c => (ExitCode c, trace ++ [id])               (* abort hand-shake, child terminated *)
                     | EvRaise => (Raised, trace ++ [id])                     (* never swallowed *)
                     end
  | MError :: _ => (Raised, trace)
  end.
Definition external_run evalf script k := let (m, e) := child script k in parent evalf m e [].
(* the same optimizer running in-process: same script, no channel, no crash *)
Definition inprocess_run evalf script := parent evalf script EndOk [].

Lemma parent_killed evalf msgs trace : fst (parent evalf msgs EndKilled trace) <> Finished.
Proof. revert trace; induction msgs as [|[| |id|] t IH]; intros trace; cbn; try discriminate; auto. destruct (evalf id); cbn; auto; discriminate. Qed.
Theorem death_never_success evalf script k : k < length script -> fst (external_run evalf script (Some k)) <> Finished.
Proof. intros H. unfold external_run, child. apply Nat.ltb_lt in H. rewrite H. apply parent_killed. Qed.
Theorem error_never_success evalf pre post e trace : fst (parent evalf (pre ++ MError :: post) e trace) <> Finished.
Proof. revert trace; induction pre as [|[| |id|] t IH]; intros trace; cbn; try discriminate; auto. destruct (evalf id); cbn; auto; discriminate. Qed.
Theorem no_crash_equals_inprocess evalf script : external_run evalf script None = inprocess_run evalf script.
Proof. reflexivity. Qed.
(* with a crash the evaluations performed are a prefix of the in-process ones *)
Lemma parent_trace_prefix evalf msgs : forall e trace, exists ext, snd (parent evalf msgs e trace) = trace ++ ext.
Proof.
  induction msgs as [|[| |id|] t IH]; intros e trace; cbn; try (exists []; now rewrite app_nil_r); auto.
  destruct (evalf id); cbn; try (now exists [id]). destruct (IH e (trace ++ [id])) as [ext H]. exists (id :: ext). rewrite H. now rewrite <- app_assoc.
Qed.
Print Assumptions death_never_success. Print Assumptions error_never_success.
