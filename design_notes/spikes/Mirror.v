From Coq Require Import QArith Qminmax Lqa Bool Arith Lia.
Open Scope Q_scope.
(* bounds: None = infinite on that side *)
Definition below (y : Q) (lb : option Q) : bool := match lb with Some l => negb (Qle_bool l y) | None => false end.
Definition above (y : Q) (ub : option Q) : bool := match ub with Some u => negb (Qle_bool y u) | None => false end.
Definition refl (b : option Q) (y : Q) : Q := match b with Some c => 2 * c - y | None => y end.
Definition mstep_lo lb ub (v : Q) : Q := let v1 := if below v lb then refl lb v else v in if above v1 ub then refl ub v1 else v1.
Definition mstep_hi lb ub (v : Q) : Q := let v1 := if above v ub then refl ub v else v in if below v1 lb then refl lb v1 else v1.
Fixpoint iter {A} (n : nat) (f : A -> A) (x : A) : A := match n with O => x | S k => iter k f (f x) end.
Definition clip lb ub (v : Q) : Q :=
  let v1 := match lb with Some l => if Qle_bool l v then v else l | None => v end in
  match ub with Some u => if Qle_bool v1 u then v1 else u | None => v1 end.
Inductive btype := BNone | BTrunc | BMirror.
Definition apply_bounds_1 (rep : nat) (t : btype) lb ub (y : Q) : Q :=
  match t with
  | BNone => y
  | BTrunc => clip lb ub y
  | BMirror => let v := if below y lb then iter rep (mstep_lo lb ub) y else if above y ub then iter rep (mstep_hi lb ub) y else y in clip lb ub v
  end.
Definition inb lb ub (y : Q) : Prop := (match lb with Some l => l <= y | None => True end) /\ (match ub with Some u => y <= u | None => True end).
Definition okb (lb ub : option Q) : Prop := match lb, ub with Some l, Some u => l <= u | _, _ => True end.

Lemma below_false lb y : (match lb with Some l => l <= y | None => True end) -> below y lb = false.
Proof. destruct lb as [l|]; cbn; auto. intros H. apply negb_false_iff. now apply Qle_bool_iff. Qed.
Lemma above_false ub y : (match ub with Some u => y <= u | None => True end) -> above y ub = false.
Proof. destruct ub as [u|]; cbn; auto. intros H. apply negb_false_iff. now apply Qle_bool_iff. Qed.
Lemma clip_in lb ub y : inb lb ub y -> clip lb ub y = y.
Proof.
  intros [H1 H2]. unfold clip. destruct lb as [l|].
  - apply Qle_bool_iff in H1. rewrite H1. destruct ub as [u|]; auto. apply Qle_bool_iff in H2. now rewrite H2.
  - destruct ub as [u|]; auto. apply Qle_bool_iff in H2. now rewrite H2.
Qed.
Ltac qb := repeat match goal with |- context [Qle_bool ?a ?b] =>
  let E := fresh "E" in destruct (Qle_bool a b) eqn:E;
  [apply Qle_bool_iff in E | assert (~ a <= b) by (rewrite <- Qle_bool_iff; congruence); clear E] end.
Lemma clip_within lb ub y : okb lb ub -> inb lb ub (clip lb ub y).
Proof.
  intros Hok. unfold clip, inb. destruct lb as [l|], ub as [u|]; cbn in *; qb; split; auto; lra.
Qed.

Theorem inside_unaltered rep t lb ub y : inb lb ub y -> apply_bounds_1 rep t lb ub y = y.
Proof.
  intros H. pose proof H as [H1 H2]. destruct t; cbn; auto using clip_in.
  rewrite (below_false _ _ H1), (above_false _ _ H2). now apply clip_in.
Qed.
Theorem none_identity rep lb ub y : apply_bounds_1 rep BNone lb ub y = y. Proof. reflexivity. Qed.
Theorem within rep t lb ub y : t <> BNone -> okb lb ub -> inb lb ub (apply_bounds_1 rep t lb ub y).
Proof. intros Ht Hok. destruct t; [congruence| |]; cbn; now apply clip_within. Qed.

Lemma mstep_lo_in lb ub v : inb lb ub v -> mstep_lo lb ub v = v.
Proof. intros [H1 H2]. unfold mstep_lo. rewrite (below_false _ _ H1). cbn. now rewrite (above_false _ _ H2). Qed.
Lemma iter_fix {A} n (f : A -> A) x : f x = x -> iter n f x = x.
Proof. induction n; cbn; auto. intros H. rewrite H. auto. Qed.

Theorem mirror_single_lower rep l ub y : (0 < rep)%nat -> y < l ->
  (match ub with Some u => 2 * l - y <= u | None => True end) ->
  apply_bounds_1 rep BMirror (Some l) ub y == 2 * l - y.
Proof.
  intros Hr Hy Hu. destruct rep as [|r]; [lia|]. cbn [apply_bounds_1].
  assert (Hb : below y (Some l) = true).
  { cbn. apply negb_true_iff. destruct (Qle_bool l y) eqn:E; auto. apply Qle_bool_iff in E. lra. }
  rewrite Hb. cbn [iter].
  assert (Hin : inb (Some l) ub (2 * l - y)). { split; [lra|exact Hu]. }
  assert (Hs : mstep_lo (Some l) ub y = 2 * l - y).
  { unfold mstep_lo. rewrite Hb. cbn [refl]. now rewrite (above_false _ _ Hu). }
  rewrite Hs. rewrite (iter_fix r _ _ (mstep_lo_in _ _ _ Hin)). rewrite (clip_in _ _ _ Hin). reflexivity.
Qed.
Print Assumptions mirror_single_lower.
Print Assumptions within.
