From Coq Require Import List Bool Arith Lia. Import ListNotations.
Inductive kind := KF | KG | KFG.
Inductive code := TooFew | MaxFunctions | UserAbort | StepFinished.
Inductive evalout := ERaise | EAbort | ESucc (successes : nat).     (* what the fault script makes of this evaluation *)
Record req := { rk : kind; batch : nat (* number of vectors, >= 1 *); ev : evalout }.
Inductive outcome := Exit (c : code) | Raise.
Inductive res := RF | RG.
Record cfg := { maxf : option nat; rmin : nat; allow_nan : bool }.

Definition too_few (c : cfg) (succ : nat) : bool := Nat.ltb succ (rmin c) || (Nat.ltb (rmin c) 1 && negb (allow_nan c) && Nat.eqb succ 0).
Definition over_budget (c : cfg) (completed : nat) : bool := match maxf c with Some m => Nat.leb m completed | None => false end.

(* one request of the optimizer: returns (results delivered, functions counted, new cache flag) *)
Definition deliver_of (r : req) (cache : bool) : list res * nat * bool :=
  match rk r with
  | KF => (repeat RF (batch r), batch r, true)
  | KG => if cache then ([RG], 0, cache) else ([RF; RG], 0, false)     (* gradient without cached function: both evaluated *)
  | KFG => ([RF; RG], batch r, false)
  end.

Fixpoint run (c : cfg) (script : list req) (completed : nat) (cache : bool) (delivered : list res) : outcome * list res * nat :=
  match script with
  | [] => (Exit StepFinished, delivered, completed)
  | r :: t =>
      if over_budget c completed then (Exit MaxFunctions, delivered, completed) else
      match ev r with
      | ERaise => (Raise, delivered, completed)
      | EAbort => (Exit UserAbort, delivered, completed)
      | ESucc s =>
          let '(rs, n, cache') := deliver_of r cache in
          if too_few c s then (Exit TooFew, delivered ++ rs, completed)       (* results are delivered before the abort *)
          else run c t (completed + n) cache' (delivered ++ rs)
      end
  end.

(* budget: counted functions never exceed max_functions + (largest batch - 1) *)
Theorem budget c script m B : maxf c = Some m -> 1 <= B -> Forall (fun r => batch r <= B) script ->
  forall completed cache delivered, completed <= m + (B - 1) ->
  let '(_, _, completed') := run c script completed cache delivered in completed' <= m + (B - 1).
Proof.
  intros Hm HB. induction script as [|r t IH]; intros Hall completed cache delivered Hc; cbn [run]; [exact Hc|].
  inversion Hall as [|? ? Hr Ht]; subst. specialize (IH Ht).
  unfold over_budget. rewrite Hm. destruct (Nat.leb_spec m completed) as [Hle|Hlt]; [exact Hc|].
  destruct (ev r) as [| |s]; try exact Hc.
  unfold deliver_of. destruct (rk r); [| destruct cache |];
    (destruct (too_few c s); [exact Hc|]); apply IH; lia.
Qed.
Corollary budget_serial c script m : maxf c = Some m -> Forall (fun r => batch r <= 1) script ->
  let '(_, _, completed') := run c script 0 false [] in completed' <= m.
Proof.
  intros Hm Hall. pose proof (budget c script m 1 Hm (le_n 1) Hall 0 false [] ltac:(lia)) as H.
  destruct (run c script 0 false []) as [[o d] cp]. lia.
Qed.

(* exit classification: the outcome is decided by the first request that terminates the run *)
Inductive stops (c : cfg) : nat -> req -> outcome -> Prop :=
  | SBudget completed r : over_budget c completed = true -> stops c completed r (Exit MaxFunctions)
  | SRaise completed r : over_budget c completed = false -> ev r = ERaise -> stops c completed r Raise
  | SAbort completed r : over_budget c completed = false -> ev r = EAbort -> stops c completed r (Exit UserAbort)
  | SFew completed r s : over_budget c completed = false -> ev r = ESucc s -> too_few c s = true -> stops c completed r (Exit TooFew).
Definition continues (c : cfg) (completed : nat) (r : req) : Prop :=
  over_budget c completed = false /\ exists s, ev r = ESucc s /\ too_few c s = false.

Theorem classification c script : forall completed cache delivered,
  let '(o, _, _) := run c script completed cache delivered in
  (o = Exit StepFinished /\ True) \/
  (exists pre r post comp', script = pre ++ r :: post /\ stops c comp' r o).
Proof.
  induction script as [|r t IH]; intros completed cache delivered; cbn [run]; [left; auto|].
  destruct (over_budget c completed) eqn:Eb.
  { right. exists [], r, t, completed. split; [reflexivity | now constructor]. }
  destruct (ev r) as [| |s] eqn:Ee.
  - right. exists [], r, t, completed. split; [reflexivity | now constructor].
  - right. exists [], r, t, completed. split; [reflexivity | now constructor].
  - destruct (deliver_of r cache) as [[rs n] cache'] eqn:Ed. destruct (too_few c s) eqn:Et.
    + right. exists [], r, t, completed. split; [reflexivity | econstructor; eauto].
    + specialize (IH (completed + n) cache' (delivered ++ rs)). destruct (run c t (completed + n) cache' (delivered ++ rs)) as [[o dl] cp].
      destruct IH as [IH|(pre & r' & post & comp' & -> & Hs)]; [left; exact IH|].
      right. exists (r :: pre), r', post, comp'. split; [reflexivity | exact Hs].
Qed.
(* the results of the evaluation that triggers TOO_FEW are in the delivered list *)
Theorem results_before_too_few c r t completed cache delivered s : over_budget c completed = false -> ev r = ESucc s -> too_few c s = true ->
  let '(o, dl, _) := run c (r :: t) completed cache delivered in
  o = Exit TooFew /\ dl = delivered ++ fst (fst (deliver_of r cache)).
Proof. intros Hb He Ht. cbn [run]. rewrite Hb, He. destruct (deliver_of r cache) as [[rs n] c']. rewrite Ht. cbn. auto. Qed.
Print Assumptions budget_serial. Print Assumptions classification.
