From Coq Require Import List Bool Arith Lia Permutation. Import ListNotations.
Require Import Reg.
(* invariants and characterisations of the registry machine of Reg.v *)
Definition names (r : registry) := map fst r.
Lemma find_name_none r n : find_name r n = None <-> ~ In n (names r).
Proof.
  induction r as [|[k v] t IH]; cbn; [tauto|]. destruct (Nat.eqb_spec k n); [subst; split; [discriminate|intros H; exfalso; apply H; auto]|].
  rewrite IH. tauto.
Qed.
Lemma step_names_nodup r o : NoDup (names r) -> NoDup (names (fst (step r o))).
Proof.
  intros H. destruct o; cbn; auto. destruct (find_name r name_lc) eqn:E; cbn; auto.
  apply find_name_none in E. destruct prio; cbn.
  - constructor; assumption.
  - unfold names. rewrite map_app. cbn.
    apply (Permutation_NoDup (l := name_lc :: map fst r)).
    + apply Permutation_cons_append.
    + constructor; assumption.
Qed.
Lemma add_duplicate_rejected r n pid p prio : In n (names r) -> step r (Add n pid p prio) = (r, AErr).
Proof. intros H. cbn. destruct (find_name r n) eqn:E; [reflexivity|]. apply find_name_none in E. contradiction. Qed.
Lemma lookups_pure r o : (forall n pid p prio, o <> Add n pid p prio) -> fst (step r o) = r.
Proof. destruct o; cbn; auto. intros H. exfalso. eapply H. reflexivity. Qed.

(* bare lookup = first discoverable supporting plug-in in registry order *)
Lemma first_disc_spec r m pid : first_disc r m = Some pid <->
  exists r1 n p r2, r = r1 ++ (n, (pid, p)) :: r2 /\ disc p = true /\ supports p m = true /\
                    (forall n' pid' p', In (n', (pid', p')) r1 -> disc p' && supports p' m = false).
Proof.
  induction r as [|[n [q p]] t IH]; cbn.
  - split; [discriminate|]. intros (r1 & ? & ? & ? & H & _). destruct r1; discriminate.
  - destruct (disc p && supports p m) eqn:E.
    + split.
      * intros H. injection H as <-. apply andb_prop in E as [E1 E2]. exists [], n, p, t. repeat split; auto. intros ? ? ? [].
      * intros (r1 & n0 & p0 & r2 & H & Hd & Hs & Hpre). destruct r1 as [|[n1 [q1 p1]] r1]; cbn in H.
        -- inversion H; subst. reflexivity.
        -- inversion H; subst. specialize (Hpre _ _ _ (or_introl eq_refl)). congruence.
    + rewrite IH. split.
      * intros (r1 & n0 & p0 & r2 & -> & Hd & Hs & Hpre). exists ((n, (q, p)) :: r1), n0, p0, r2. repeat split; auto.
        intros n' pid' p' [H|H]; [injection H as <- <- <-; exact E | eapply Hpre; eauto].
      * intros (r1 & n0 & p0 & r2 & H & Hd & Hs & Hpre). destruct r1 as [|[n1 [q1 p1]] r1]; cbn in H.
        -- inversion H; subst. rewrite Hd, Hs in E. discriminate.
        -- inversion H; subst. exists r1, n0, p0, r2. repeat split; auto. intros; eapply Hpre; right; eauto.
Qed.
Lemma bare_never_undiscoverable r m pid : first_disc r m = Some pid -> exists n p, In (n, (pid, p)) r /\ disc p = true.
Proof. intros H. apply first_disc_spec in H as (r1 & n & p & r2 & -> & Hd & _). exists n, p. split; [apply in_or_app; right; left; reflexivity | exact Hd]. Qed.
Lemma is_supported_iff_get r m : snd (step r (SupB m)) = ABool true <-> exists pid, snd (step r (GetB m)) = APlug pid.
Proof. cbn. destruct (first_disc r m); split; try discriminate; eauto; try (intros [? H]; discriminate). Qed.
(* isolation: a universe of managers; an operation addressed to manager i leaves the others untouched *)
Fixpoint upd {A} (l : list A) (i : nat) (x : A) := match l, i with [], _ => [] | _ :: t, O => x :: t | h :: t, S j => h :: upd t j x end.
Definition ustep (u : list registry) (i : nat) (o : op) : list registry := match nth_error u i with Some r => upd u i (fst (step r o)) | None => u end.
Lemma isolation u i j o : i <> j -> nth_error (ustep u i o) j = nth_error u j.
Proof.
  intros Hij. unfold ustep. destruct (nth_error u i) as [r|] eqn:E; [|reflexivity]. clear E. revert i j Hij.
  induction u as [|h t IH]; intros [|i] [|j] Hij; cbn; auto; try lia.
Qed.
Print Assumptions first_disc_spec. Print Assumptions isolation. Print Assumptions step_names_nodup.
