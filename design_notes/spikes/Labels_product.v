From Coq Require Import List Arith Lia FinFun. Import ListNotations.
(* EvaluatorContext labels of a gradient evaluation:
   realizations = np.repeat(np.arange(R), P) ; perturbations = np.tile(np.arange(P), R) *)
Definition np_repeat (l : list nat) (P : nat) : list nat := flat_map (fun r => repeat r P) l.
Definition np_tile (l : list nat) (R : nat) : list nat := concat (repeat l R).
Definition labels_gradient (R P : nat) : list (nat * nat) := combine (np_repeat (seq 0 R) P) (np_tile (seq 0 P) R).

Lemma combine_app {A B} (a1 a2 : list A) (b1 b2 : list B) : length a1 = length b1 ->
  combine (a1 ++ a2) (b1 ++ b2) = combine a1 b1 ++ combine a2 b2.
Proof. revert b1; induction a1 as [|x a1 IH]; intros [|y b1] H; cbn in *; try discriminate; auto. f_equal. apply IH. lia. Qed.
Lemma combine_repeat {B} (r : nat) (l : list B) : combine (repeat r (length l)) l = map (fun p => (r, p)) l.
Proof. induction l; cbn; auto. now rewrite IHl. Qed.

Lemma labels_general (l : list nat) (ps : list nat) :
  combine (np_repeat l (length ps)) (np_tile ps (length l)) = list_prod l ps.
Proof.
  unfold np_repeat, np_tile. induction l as [|r l IH]; cbn; [reflexivity|].
  rewrite combine_app by (now rewrite repeat_length). rewrite combine_repeat, IH. reflexivity.
Qed.
Theorem labels_gradient_is_product R P : labels_gradient R P = list_prod (seq 0 R) (seq 0 P).
Proof. unfold labels_gradient. rewrite <- (labels_general (seq 0 R) (seq 0 P)). now rewrite !seq_length. Qed.

(* each required (realization, perturbation) pair is requested, exactly once, and nothing else *)
Theorem labels_complete R P r p : In (r, p) (labels_gradient R P) <-> r < R /\ p < P.
Proof. rewrite labels_gradient_is_product, in_prod_iff, !in_seq. lia. Qed.
Lemma nodup_app {A} (l1 l2 : list A) : NoDup l1 -> NoDup l2 -> (forall x, In x l1 -> ~ In x l2) -> NoDup (l1 ++ l2).
Proof.
  induction 1 as [|x l1 Hx H1 IH]; intros H2 Hd; cbn; [exact H2|]. constructor.
  - intros Hin. apply in_app_or in Hin as [Hin|Hin]; [contradiction | exact (Hd x (or_introl eq_refl) Hin)].
  - apply IH; [exact H2 | intros y Hy; apply Hd; now right].
Qed.
Lemma nodup_prod {A B} (a : list A) (b : list B) : NoDup a -> NoDup b -> NoDup (list_prod a b).
Proof.
  intros Ha Hb. induction Ha as [|x a Hx Ha IH]; cbn; [constructor|]. apply nodup_app; [|exact IH|].
  - apply FinFun.Injective_map_NoDup; [intros u v E; now injection E | exact Hb].
  - intros [u v] H2 H3. apply in_map_iff in H2 as (y & E & _). injection E as <- <-. apply in_prod_iff in H3 as [H3 _]. contradiction.
Qed.
Theorem labels_nodup R P : NoDup (labels_gradient R P).
Proof. rewrite labels_gradient_is_product. apply nodup_prod; apply seq_NoDup. Qed.
Print Assumptions labels_complete. Print Assumptions labels_nodup.
