From Coq Require Import QArith Qminmax List Bool Lqa Lia. Import ListNotations.
Open Scope Q_scope.
(* bounds: None = infinite on that side *)
Definition lb_ok (l : option Q) (c : Q) : Prop := match l with Some a => a <= c | None => True end.
Definition ub_ok (u : option Q) (c : Q) : Prop := match u with Some b => c <= b | None => True end.
Record row := { idx : nat; rhs : Q; flip : bool; is_eq : bool }.
(* NormalizedConstraints.__init__ for one (lower, upper) pair at constraint index i; equality iff lower = upper exactly *)
Definition rows_of (i : nat) (l u : option Q) : list row :=
  match l, u with
  | Some a, Some b => if Qeq_bool a b then [{| idx := i; rhs := a; flip := false; is_eq := true |}]
                      else [{| idx := i; rhs := a; flip := false; is_eq := false |}; {| idx := i; rhs := b; flip := true; is_eq := false |}]
  | Some a, None => [{| idx := i; rhs := a; flip := false; is_eq := false |}]
  | None, Some b => [{| idx := i; rhs := b; flip := true; is_eq := false |}]
  | None, None => []
  end.
Definition value (r : row) (c : Q) : Q := if flip r then - (c - rhs r) else c - rhs r.
Definition sat (r : row) (c : Q) : Prop := if is_eq r then value r c == 0 else 0 <= value r c.
Definition jac (r : row) (g : Q) : Q := if flip r then - g else g.

Theorem feasible_iff i l u c : (lb_ok l c /\ ub_ok u c) <-> Forall (fun r => sat r c) (rows_of i l u).
Proof.
  destruct l as [a|], u as [b|]; cbn.
  - destruct (Qeq_bool a b) eqn:E.
    + apply Qeq_bool_iff in E. split.
      * intros [H1 H2]. constructor; [|constructor]. unfold sat, value; cbn. lra.
      * intros H. inversion H as [|? ? H1 _]; subst. unfold sat, value in H1; cbn in H1. split; lra.
    + split.
      * intros [H1 H2]. repeat constructor; unfold sat, value; cbn; lra.
      * intros H. inversion H as [|? ? H1 H']; subst. inversion H' as [|? ? H2 _]; subst. unfold sat, value in *; cbn in *. split; lra.
  - split; [intros [H1 _]; repeat constructor; unfold sat, value; cbn; lra | intros H; inversion H as [|? ? H1 _]; subst; unfold sat, value in H1; cbn in H1; split; [lra|exact I]].
  - split; [intros [_ H2]; repeat constructor; unfold sat, value; cbn; lra | intros H; inversion H as [|? ? H1 _]; subst; unfold sat, value in H1; cbn in H1; split; [exact I|lra]].
  - split; [constructor | auto].
Qed.
(* the Jacobian row is the derivative of the normalised value: value is affine in c with slope (jac 1) *)
Theorem jacobian_sign r c d : value r (c + d) == value r c + jac r 1 * d.
Proof. unfold value, jac. destruct (flip r); ring. Qed.

(* C13: violation = max(lower - v, v - upper, 0) with optional bounds *)
Definition lower_diff (l : option Q) (v : Q) : option Q := match l with Some a => Some (v - a) | None => None end.  (* None = +inf *)
Definition upper_diff (u : option Q) (v : Q) : option Q := match u with Some b => Some (v - b) | None => None end.  (* None = -inf *)
Definition violation (l u : option Q) (v : Q) : Q :=
  Qmax (match lower_diff l v with Some d => if Qle_bool 0 d then 0 else - d | None => 0 end)
       (match upper_diff u v with Some d => if Qle_bool d 0 then 0 else d | None => 0 end).
Ltac qb := repeat match goal with |- context [Qle_bool ?a ?b] =>
  let E := fresh "E" in destruct (Qle_bool a b) eqn:E;
  [apply Qle_bool_iff in E | assert (~ a <= b) by (rewrite <- Qle_bool_iff; congruence); clear E] end.
Ltac mx := match goal with |- context [Qmax ?a ?b] =>
  let H1 := fresh "Hm" in let H2 := fresh "Hm" in destruct (Q.max_spec a b) as [[H1 H2]|[H1 H2]]; rewrite H2; clear H2 end.
Theorem violation_zero_iff l u v : violation l u v == 0 <-> (lb_ok l v /\ ub_ok u v).
Proof.
  unfold violation. destruct l as [a|], u as [b|]; cbn; qb; try mx; split; intros; repeat split; try tauto; try lra;
    try (match goal with H : _ /\ _ |- _ => destruct H end; lra).
Qed.
Theorem violation_outside_positive l u v : ~ (lb_ok l v /\ ub_ok u v) -> 0 < violation l u v.
Proof.
  intros H. assert (Hnn : 0 <= violation l u v).
  { unfold violation. destruct l, u; cbn; qb; try mx; try lra. }
  destruct (Qlt_le_dec 0 (violation l u v)) as [|Hle]; auto. exfalso. apply H. apply violation_zero_iff. apply Qle_antisym; assumption.
Qed.
Theorem violation_formula a b v : violation (Some a) (Some b) v == Qmax (Qmax (a - v) (v - b)) 0.
Proof.
  unfold violation; cbn.
  destruct (Q.max_spec (a - v) (v - b)) as [[Hi Ei]|[Hi Ei]]; rewrite Ei; qb; repeat mx; lra.
Qed.
Print Assumptions feasible_iff. Print Assumptions violation_outside_positive.
