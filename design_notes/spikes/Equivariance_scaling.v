From Coq Require Import QArith Qminmax Lqa Bool Arith Lia Setoid Morphisms.
Require Import Mirror.
Open Scope Q_scope.
(* C11: boundary handling commutes with the positive affine map T y = (y - o) / s  (VariableScaler.to_optimizer) *)
Section Equi.
Variables (s o : Q).
Hypothesis Hs : 0 < s.
Definition T (y : Q) : Q := (y - o) / s.
Definition Tb (b : option Q) : option Q := match b with Some c => Some (T c) | None => None end.

Lemma T_le a b : a <= b <-> T a <= T b.
Proof.
  assert (Hi : 0 < / s) by (apply Qinv_lt_0_compat, Hs).
  assert (Hsi : s * / s == 1) by (field; lra).
  unfold T, Qdiv. split; intros H; [nra|].
  assert (H2 : (a - o) * / s * s <= (b - o) * / s * s) by nra.
  assert (E1 : (a - o) * / s * s == a - o) by (field; lra).
  assert (E2 : (b - o) * / s * s == b - o) by (field; lra).
  lra.
Qed.
Lemma Qle_bool_T a b : Qle_bool (T a) (T b) = Qle_bool a b.
Proof.
  destruct (Qle_bool a b) eqn:E.
  - apply Qle_bool_iff. apply (proj1 (T_le a b)). now apply Qle_bool_iff.
  - destruct (Qle_bool (T a) (T b)) eqn:E2; auto. apply Qle_bool_iff in E2. apply (proj2 (T_le a b)) in E2.
    apply Qle_bool_iff in E2. congruence.
Qed.
Lemma Qle_bool_proper a a' b b' : a == a' -> b == b' -> Qle_bool a b = Qle_bool a' b'.
Proof. intros Ha Hb. destruct (Qle_bool a' b') eqn:E. - apply Qle_bool_iff. apply Qle_bool_iff in E. lra.
  - destruct (Qle_bool a b) eqn:E2; auto. apply Qle_bool_iff in E2. assert (a' <= b') by lra. apply Qle_bool_iff in H. congruence. Qed.

Lemma below_T y y' lb : y' == T y -> below y' (Tb lb) = below y lb.
Proof. intros H. destruct lb as [l|]; cbn; auto. f_equal. rewrite (Qle_bool_proper _ (T l) _ (T y)) by (auto; reflexivity). apply Qle_bool_T. Qed.
Lemma above_T y y' ub : y' == T y -> above y' (Tb ub) = above y ub.
Proof. intros H. destruct ub as [u|]; cbn; auto. f_equal. rewrite (Qle_bool_proper _ (T y) _ (T u)) by (auto; reflexivity). apply Qle_bool_T. Qed.
Lemma refl_T b y y' : y' == T y -> refl (Tb b) y' == T (refl b y).
Proof. intros H. destruct b as [c|]; cbn; [|exact H]. rewrite H. unfold T. field. lra. Qed.

Lemma mstep_lo_T lb ub y y' : y' == T y -> mstep_lo (Tb lb) (Tb ub) y' == T (mstep_lo lb ub y).
Proof.
  intros H. unfold mstep_lo. rewrite (below_T y y' lb H).
  destruct (below y lb).
  - pose proof (refl_T lb y y' H) as H1. rewrite (above_T (refl lb y) _ ub H1). destruct (above (refl lb y) ub); [now apply refl_T | exact H1].
  - rewrite (above_T y y' ub H). destruct (above y ub); [now apply refl_T | exact H].
Qed.
Lemma mstep_hi_T lb ub y y' : y' == T y -> mstep_hi (Tb lb) (Tb ub) y' == T (mstep_hi lb ub y).
Proof.
  intros H. unfold mstep_hi. rewrite (above_T y y' ub H).
  destruct (above y ub).
  - pose proof (refl_T ub y y' H) as H1. rewrite (below_T (refl ub y) _ lb H1). destruct (below (refl ub y) lb); [now apply refl_T | exact H1].
  - rewrite (below_T y y' lb H). destruct (below y lb); [now apply refl_T | exact H].
Qed.
Lemma iter_T n f g : (forall y y', y' == T y -> g y' == T (f y)) -> forall y y', y' == T y -> iter n g y' == T (iter n f y).
Proof. intros Hfg. induction n as [|n IH]; intros y y' H; cbn; [exact H | apply IH, Hfg, H]. Qed.
Lemma clip_T lb ub y y' : y' == T y -> clip (Tb lb) (Tb ub) y' == T (clip lb ub y).
Proof.
  intros H. unfold clip. destruct lb as [l|]; cbn.
  - rewrite (Qle_bool_proper (T l) (T l) y' (T y)) by (auto; reflexivity). rewrite Qle_bool_T.
    destruct (Qle_bool l y); destruct ub as [u|]; cbn; try exact H; try reflexivity.
    + rewrite (Qle_bool_proper y' (T y) (T u) (T u)) by (auto; reflexivity). rewrite Qle_bool_T. destruct (Qle_bool y u); [exact H|reflexivity].
    + rewrite Qle_bool_T. destruct (Qle_bool l u); reflexivity.
  - destruct ub as [u|]; cbn; [|exact H].
    rewrite (Qle_bool_proper y' (T y) (T u) (T u)) by (auto; reflexivity). rewrite Qle_bool_T. destruct (Qle_bool y u); [exact H|reflexivity].
Qed.

Theorem apply_bounds_equivariant rep t lb ub y :
  apply_bounds_1 rep t (Tb lb) (Tb ub) (T y) == T (apply_bounds_1 rep t lb ub y).
Proof.
  assert (H0 : T y == T y) by reflexivity. destruct t; cbn [apply_bounds_1].
  - reflexivity.
  - now apply clip_T.
  - rewrite (below_T y (T y) lb H0), (above_T y (T y) ub H0). apply clip_T.
    destruct (below y lb); [apply iter_T; [intros; now apply mstep_lo_T | exact H0]|].
    destruct (above y ub); [apply iter_T; [intros; now apply mstep_hi_T | exact H0] | exact H0].
Qed.
(* round trip of the scaler *)
Theorem roundtrip y : T y * s + o == y. Proof. unfold T. field. lra. Qed.
End Equi.
Print Assumptions apply_bounds_equivariant.
