From Coq Require Import List Bool Arith Lia. Import ListNotations.
(* names and methods are small nat codes; a plug-in is (supported methods, discoverable) *)
Record plugin := { sup : list nat; disc : bool }.
Definition registry := list (nat * (nat * plugin)).   (* lower-cased name code, (plugin id, plugin) *)
Inductive op := Add (name_lc : nat) (pid : nat) (p : plugin) (prio : bool) | GetQ (name_lc meth : nat) | GetB (meth : nat) | SupQ (name_lc meth : nat) | SupB (meth : nat).
Inductive ans := AOk | AErr | APlug (pid : nat) | ABool (b : bool).
Definition supports (p : plugin) (m : nat) := existsb (Nat.eqb m) (sup p).
Fixpoint find_name (r : registry) (n : nat) := match r with [] => None | (k, v) :: t => if Nat.eqb k n then Some v else find_name t n end.
Fixpoint first_disc (r : registry) (m : nat) := match r with [] => None | (_, (pid, p)) :: t => if disc p && supports p m then Some pid else first_disc t m end.
Definition getq r n m := match find_name r n with Some (pid, p) => if supports p m then Some pid else None | None => None end.
Definition step (r : registry) (o : op) : registry * ans :=
  match o with
  | Add n pid p prio => match find_name r n with Some _ => (r, AErr) | None => ((if prio then (n, (pid, p)) :: r else r ++ [(n, (pid, p))]), AOk) end
  | GetQ n m => (r, match getq r n m with Some pid => APlug pid | None => AErr end)
  | GetB m => (r, match first_disc r m with Some pid => APlug pid | None => AErr end)
  | SupQ n m => (r, ABool (match getq r n m with Some _ => true | None => false end))
  | SupB m => (r, ABool (match first_disc r m with Some _ => true | None => false end))
  end.
Fixpoint run (r : registry) (ops : list op) : list ans * registry :=
  match ops with [] => ([], r) | o :: t => let (r', a) := step r o in let (as_, rf) := run r' t in (a :: as_, rf) end.
Definition ans_eqb (a b : ans) := match a, b with AOk, AOk | AErr, AErr => true | APlug x, APlug y => Nat.eqb x y | ABool x, ABool y => Bool.eqb x y | _, _ => false end.
Fixpoint list_eqb {A} (e : A -> A -> bool) (a b : list A) := match a, b with [], [] => true | x :: a', y :: b' => e x y && list_eqb e a' b' | _, _ => false end.
Definition check (r0 : registry) (c : list op * list ans * list nat) : bool :=
  let '(ops, obs, order) := c in let (a, rf) := run r0 ops in list_eqb ans_eqb a obs && list_eqb Nat.eqb (map fst rf) order.
Fixpoint failing (r0 : registry) (i : nat) (l : list (list op * list ans * list nat)) : list nat :=
  match l with [] => [] | c :: t => if check r0 c then failing r0 (S i) t else i :: failing r0 (S i) t end.
