From Coq Require Import QArith List Bool Lia Lqa Sorting.Mergesort Orders Permutation Sorted RelationClasses.
Import ListNotations.
Open Scope Q_scope.
(* key: (value, index); None (NaN / failed) sorts last; ties by index => total and deterministic *)
Module KeyOrder <: TotalLeBool.
  Definition t := (option Q * nat)%type.
  Definition leb (a b : t) : bool :=
    match fst a, fst b with
    | None, None => Nat.leb (snd a) (snd b)
    | None, Some _ => false
    | Some _, None => true
    | Some x, Some y => if Qle_bool x y then (if Qle_bool y x then Nat.leb (snd a) (snd b) else true) else false
    end.
  Theorem leb_total : forall a1 a2, leb a1 a2 = true \/ leb a2 a1 = true.
  Proof.
    intros [[x|] i] [[y|] j]; unfold leb; cbn; auto.
    - destruct (Qle_bool x y) eqn:A, (Qle_bool y x) eqn:B; auto.
      + destruct (Nat.leb_spec i j), (Nat.leb_spec j i); auto; lia.
      + exfalso. assert (~ x <= y) by (rewrite <- Qle_bool_iff; congruence).
        assert (~ y <= x) by (rewrite <- Qle_bool_iff; congruence). lra.
    - destruct (Nat.leb_spec i j), (Nat.leb_spec j i); auto; lia.
  Qed.
End KeyOrder.
Module KS := Sort KeyOrder.
Import KeyOrder.

Ltac qb := repeat match goal with
  | H : context [Qle_bool ?a ?b] |- _ => let E := fresh "E" in destruct (Qle_bool a b) eqn:E;
      [apply Qle_bool_iff in E | assert (~ a <= b) by (rewrite <- Qle_bool_iff; congruence); clear E]
  | |- context [Qle_bool ?a ?b] => let E := fresh "E" in destruct (Qle_bool a b) eqn:E;
      [apply Qle_bool_iff in E | assert (~ a <= b) by (rewrite <- Qle_bool_iff; congruence); clear E] end.

Lemma leb_trans : Transitive (fun x y => is_true (leb x y)).
Proof.
  intros [[x|] i] [[y|] j] [[z|] k]; unfold is_true, leb; cbn; intros H1 H2; try discriminate; auto.
  - qb; try discriminate; try lra; auto.
    apply Nat.leb_le in H1, H2. apply Nat.leb_le. lia.
  - apply Nat.leb_le in H1, H2. apply Nat.leb_le. lia.
Qed.

Fixpoint index_from (i : nat) (l : list (option Q)) : list (option Q * nat) :=
  match l with [] => [] | x :: t => (x, i) :: index_from (S i) t end.
Definition argsort (l : list (option Q)) : list nat := map snd (KS.sort (index_from 0%nat l)).

Lemma index_from_snd i l : map snd (index_from i l) = seq i (length l).
Proof. revert i; induction l as [|x t IH]; intros i; cbn; [reflexivity | now rewrite IH]. Qed.

Theorem argsort_perm l : Permutation (argsort l) (seq 0 (length l)).
Proof. unfold argsort. rewrite <- (index_from_snd 0 l). apply Permutation_map. symmetry. apply KS.Permuted_sort. Qed.
Theorem argsort_nodup l : NoDup (argsort l).
Proof. apply (Permutation_NoDup (l := seq 0 (length l))); [symmetry; apply argsort_perm | apply seq_NoDup]. Qed.
Theorem argsort_range l i : In i (argsort l) -> (i < length l)%nat.
Proof. intros H. apply (Permutation_in _ (argsort_perm l)) in H. apply in_seq in H. lia. Qed.

(* every pair keeps its own value: the i-th entry of the sorted list carries (nth i l, i) *)
Lemma index_from_in i l v k : In (v, k) (index_from i l) -> (i <= k)%nat /\ nth_error l (k - i) = Some v.
Proof.
  revert i; induction l as [|x t IH]; intros i; cbn; [tauto|]. intros [H|H].
  - injection H as -> ->. rewrite Nat.sub_diag. auto.
  - apply IH in H as [H1 H2]. split; [lia|]. replace (k - i)%nat with (S (k - S i)) by lia. exact H2.
Qed.
Theorem sorted_pairs_faithful l v k : In (v, k) (KS.sort (index_from 0%nat l)) -> nth_error l k = Some v.
Proof. intros H. apply (Permutation_in _ (Permutation_sym (KS.Permuted_sort _))) in H. apply index_from_in in H as [_ H]. now rewrite Nat.sub_0_r in H. Qed.

(* the sorted list is strongly sorted: everything before a position is <= in the NaN-last order *)
Theorem sorted_strong l : StronglySorted (fun x y => is_true (leb x y)) (KS.sort (index_from 0%nat l)).
Proof. apply KS.StronglySorted_sort. exact leb_trans. Qed.

(* consequence used by both filters: a failed (None) entry is never ranked before a successful one *)
Theorem nan_last l : forall pre x post, KS.sort (index_from 0%nat l) = pre ++ x :: post -> fst x = None ->
  forall y, In y post -> fst y = None.
Proof.
  intros pre x post E Hx y Hy. pose proof (sorted_strong l) as HS. rewrite E in HS.
  assert (HS2 : StronglySorted (fun x y => is_true (leb x y)) (x :: post)).
  { clear -HS. induction pre; cbn in *; [assumption | inversion HS; auto]. }
  inversion HS2 as [|? ? _ Hall]; subst. rewrite Forall_forall in Hall. specialize (Hall y Hy).
  unfold is_true, leb in Hall. rewrite Hx in Hall. destruct (fst y); [discriminate | reflexivity].
Qed.
Print Assumptions argsort_perm. Print Assumptions nan_last.
