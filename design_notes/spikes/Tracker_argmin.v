From Coq Require Import QArith List Bool Lqa Lia. Import ListNotations.
Open Scope Q_scope.
(* one delivered item, as seen by the tracker *)
Record item := { is_function : bool; has_functions : bool; obj : option Q (* optimizer-domain weighted objective, None = NaN *);
                 feasible : bool; tracked : bool; ident : nat }.
Definition eligible (i : item) : bool := tracked i && is_function i && has_functions i && feasible i.
Definition defined (i : item) : bool := match obj i with Some _ => true | None => false end.
Definition better (new : item) (cur : option item) : bool :=
  match obj new, cur with
  | None, _ => false
  | Some _, None => true
  | Some o, Some c => match obj c with Some oc => negb (Qle_bool oc o) | None => true end
  end.
Definition upd_best (cur : option item) (i : item) : option item := if eligible i && better i cur then Some i else cur.
Definition upd_last (cur : option item) (i : item) : option item := if eligible i then Some i else cur.
Definition best (h : list item) := fold_left upd_best h None.
Definition last_ (h : list item) := fold_left upd_last h None.

Definition cand (i : item) : Prop := eligible i = true /\ defined i = true.
Definition oval (i : item) : Q := match obj i with Some q => q | None => 0 end.

(* invariant of the fold: the state is None iff no candidate was seen; otherwise it is a candidate from the
   history that is <= every candidate seen and strictly < every candidate seen before it *)
Definition Best (h : list item) (s : option item) : Prop :=
  match s with
  | None => forall i, In i h -> ~ cand i
  | Some b => cand b /\ exists h1 h2, h = h1 ++ b :: h2 /\
              (forall i, In i h1 -> cand i -> oval b < oval i) /\ (forall i, In i h2 -> cand i -> oval b <= oval i)
  end.

Lemma upd_best_inv h s i : Best h s -> (forall b, s = Some b -> defined b = true) -> Best (h ++ [i]) (upd_best s i).
Proof.
  intros HB Hd. unfold upd_best. destruct (eligible i) eqn:Ee; cbn.
  - unfold better. destruct (obj i) as [o|] eqn:Eo.
    + destruct s as [b|].
      * destruct HB as (Hc & h1 & h2 & -> & Hlt & Hle). pose proof (Hd b eq_refl) as Hdb.
        unfold defined in Hdb. destruct (obj b) as [ob|] eqn:Eob; [|discriminate].
        destruct (Qle_bool ob o) eqn:Ec; cbn.
        -- apply Qle_bool_iff in Ec. split; [exact Hc|]. exists h1, (h2 ++ [i]). split; [now rewrite <- app_assoc|]. split; [exact Hlt|].
           intros j Hj Hcj. apply in_app_or in Hj as [Hj|[<-|[]]]; [now apply Hle|]. unfold oval. rewrite Eob, Eo. exact Ec.
        -- assert (Hlt' : o < ob). { destruct (Qlt_le_dec o ob); auto. apply Qle_bool_iff in q. congruence. }
           split; [split; [exact Ee| unfold defined; now rewrite Eo]|]. exists (h1 ++ b :: h2), []. split; [reflexivity|]. split.
           ++ intros j Hj Hcj. unfold oval at 1. rewrite Eo. apply in_app_or in Hj as [Hj|[<-|Hj]].
              ** specialize (Hlt j Hj Hcj). unfold oval in Hlt at 1. rewrite Eob in Hlt. lra.
              ** unfold oval. rewrite Eob. exact Hlt'.
              ** specialize (Hle j Hj Hcj). unfold oval in Hle at 1. rewrite Eob in Hle. lra.
           ++ intros j [].
      * cbn. split; [split; [exact Ee| unfold defined; now rewrite Eo]|]. exists h, []. split; [reflexivity|]. split.
        -- intros j Hj Hcj. exfalso. exact (HB j Hj Hcj).
        -- intros j [].
    + (* NaN objective: state unchanged *)
      destruct s as [b|]; cbn.
      * destruct HB as (Hc & h1 & h2 & -> & Hlt & Hle). split; [exact Hc|]. exists h1, (h2 ++ [i]). split; [now rewrite <- app_assoc|].
        split; [exact Hlt|]. intros j Hj Hcj. apply in_app_or in Hj as [Hj|[<-|[]]]; [now apply Hle|].
        destruct Hcj as [_ Hdj]. unfold defined in Hdj. rewrite Eo in Hdj. discriminate.
      * intros j Hj. apply in_app_or in Hj as [Hj|[<-|[]]]; [now apply HB|]. intros [_ Hdj]. unfold defined in Hdj. rewrite Eo in Hdj. discriminate.
  - (* not eligible: frame *)
    destruct s as [b|]; cbn.
    + destruct HB as (Hc & h1 & h2 & -> & Hlt & Hle). split; [exact Hc|]. exists h1, (h2 ++ [i]). split; [now rewrite <- app_assoc|].
      split; [exact Hlt|]. intros j Hj Hcj. apply in_app_or in Hj as [Hj|[<-|[]]]; [now apply Hle|]. destruct Hcj as [He _]. congruence.
    + intros j Hj. apply in_app_or in Hj as [Hj|[<-|[]]]; [now apply HB|]. intros [He _]. congruence.
Qed.

Lemma fold_inv h : forall h0 s, Best h0 s -> (forall b, s = Some b -> defined b = true) ->
  Best (h0 ++ h) (fold_left upd_best h s) /\ (forall b, fold_left upd_best h s = Some b -> defined b = true).
Proof.
  induction h as [|i h IH]; intros h0 s HB Hd; cbn.
  - rewrite app_nil_r. auto.
  - replace (h0 ++ i :: h) with ((h0 ++ [i]) ++ h) by (now rewrite <- app_assoc).
    apply IH; [now apply upd_best_inv|].
    intros b Hb. unfold upd_best in Hb. destruct (eligible i && better i s) eqn:E; [|now apply Hd].
    injection Hb as <-. apply andb_prop in E as [_ E]. unfold better in E. unfold defined. destruct (obj i); [reflexivity|discriminate].
Qed.

Theorem best_is_first_argmin h : Best h (best h).
Proof. unfold best. apply (fold_inv h [] None); [intros i [] | intros b Hb; discriminate]. Qed.
Print Assumptions best_is_first_argmin.
