From Coq Require Import QArith Lia Lqa Arith.
Open Scope Q_scope.
Fixpoint sumn (n : nat) (f : nat -> Q) : Q := match n with O => 0 | S k => sumn k f + f k end.

Lemma sumn_ext n f g : (forall i, (i < n)%nat -> f i == g i) -> sumn n f == sumn n g.
Proof. induction n as [|n IH]; intros H; cbn; [reflexivity|]. rewrite IH, (H n) by (auto; intros; apply H; lia). reflexivity. Qed.
Lemma sumn_plus n f g : sumn n (fun i => f i + g i) == sumn n f + sumn n g.
Proof. induction n as [|n IH]; cbn; [ring | rewrite IH; ring]. Qed.
Lemma sumn_minus n f g : sumn n (fun i => f i - g i) == sumn n f - sumn n g.
Proof. induction n as [|n IH]; cbn; [ring | rewrite IH; ring]. Qed.
Lemma sumn_scale n c f : sumn n (fun i => c * f i) == c * sumn n f.
Proof. induction n as [|n IH]; cbn; [ring | rewrite IH; ring]. Qed.
Lemma sumn_scale_r n c f : sumn n (fun i => f i * c) == sumn n f * c.
Proof. induction n as [|n IH]; cbn; [ring | rewrite IH; ring]. Qed.
Lemma sumn_zero n f : (forall i, (i < n)%nat -> f i == 0) -> sumn n f == 0.
Proof. induction n as [|n IH]; intros H; cbn; [reflexivity|]. rewrite IH, (H n) by (auto; intros; apply H; lia). ring. Qed.
Lemma sumn_swap m n (f : nat -> nat -> Q) :
  sumn m (fun i => sumn n (fun j => f i j)) == sumn n (fun j => sumn m (fun i => f i j)).
Proof.
  induction m as [|m IH]; cbn.
  - symmetry. apply sumn_zero. intros; reflexivity.
  - rewrite IH. rewrite <- sumn_plus. reflexivity.
Qed.
Lemma sumn_nonneg n f : (forall i, (i < n)%nat -> 0 <= f i) -> 0 <= sumn n f.
Proof. induction n as [|n IH]; intros H; cbn; [lra|]. assert (0 <= sumn n f) by (apply IH; intros; apply H; lia). assert (0 <= f n) by (apply H; lia). lra. Qed.
Lemma sumn_nonneg_zero n f : (forall i, (i < n)%nat -> 0 <= f i) -> sumn n f == 0 -> forall i, (i < n)%nat -> f i == 0.
Proof.
  induction n as [|n IH]; intros Hnn Hs i Hi; [lia|]. cbn in Hs.
  assert (H1 : 0 <= sumn n f) by (apply sumn_nonneg; intros; apply Hnn; lia).
  assert (H2 : 0 <= f n) by (apply Hnn; lia).
  destruct (Nat.eq_dec i n) as [->|Hne]; [lra|].
  apply IH; [intros; apply Hnn; lia | lra | lia].
Qed.

Section LS.
Variables (m n : nat) (A : nat -> nat -> Q).
Definition mv (x : nat -> Q) (i : nat) : Q := sumn n (fun j => A i j * x j).
Definition tmv (y : nat -> Q) (j : nat) : Q := sumn m (fun i => A i j * y i).

Lemma adjoint x y : sumn m (fun i => mv x i * y i) == sumn n (fun j => x j * tmv y j).
Proof.
  unfold mv, tmv.
  transitivity (sumn m (fun i => sumn n (fun j => A i j * x j * y i))).
  { apply sumn_ext; intros i _. symmetry. apply (sumn_scale_r n (y i) (fun j => A i j * x j)). }
  rewrite sumn_swap. apply sumn_ext; intros j _.
  rewrite <- (sumn_scale m (x j) (fun i => A i j * y i)). apply sumn_ext; intros i _. ring.
Qed.

Theorem lstsq_exact (a g : nat -> Q) :
  (forall d, (forall i, (i < m)%nat -> mv d i == 0) -> forall j, (j < n)%nat -> d j == 0) ->
  (forall j, (j < n)%nat -> tmv (fun i => mv g i - mv a i) j == 0) ->
  forall j, (j < n)%nat -> g j == a j.
Proof.
  intros Hrank Hne. set (d := fun j => g j - a j).
  assert (Hlin : forall i, mv d i == mv g i - mv a i).
  { intros i. unfold mv, d. rewrite <- sumn_minus. apply sumn_ext; intros; ring. }
  assert (Hsq : sumn m (fun i => mv d i * mv d i) == 0).
  { rewrite (adjoint d (mv d)). apply sumn_zero; intros j Hj.
    assert (tmv (mv d) j == 0).
    { rewrite <- (Hne j Hj). unfold tmv. apply sumn_ext; intros i _. rewrite Hlin. reflexivity. }
    rewrite H. ring. }
  assert (Hz : forall i, (i < m)%nat -> mv d i == 0).
  { intros i Hi. assert (mv d i * mv d i == 0).
    { apply (sumn_nonneg_zero m (fun i => mv d i * mv d i)); auto. intros; nra. }
    nra. }
  intros j Hj. specialize (Hrank d Hz j Hj). unfold d in Hrank. lra.
Qed.
End LS.
Print Assumptions lstsq_exact.
