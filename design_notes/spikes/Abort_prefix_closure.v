From Coq Require Import List Bool Arith Lia. Import ListNotations.
(* Components append deliveries to a log; the abort index k (absolute position in the log) makes the
   recipient of delivery number k raise.  A component returns (log', raised). *)
Local Arguments firstn : simpl never.
Section Sim.
Variable D : Type.
Definition comp := option nat -> list D -> list D * bool.
Definition hit (k : option nat) (n : nat) : bool := match k with Some k => Nat.eqb n k | None => false end.

Definition emit1 (d : D) : comp := fun k log => (log ++ [d], hit k (length log)).
Definition seq (f g : comp) : comp := fun k log => let (l1, r1) := f k log in if r1 then (l1, true) else g k l1.
Definition skip : comp := fun _ log => (log, false).

(* simulation property: the aborted run is the prefix of the unaborted run cut right after delivery k *)
Definition sim (f : comp) : Prop := forall k log,
  let lN := fst (f None log) in
  snd (f None log) = false /\
  (exists ext, lN = log ++ ext) /\
  (k < length log -> f (Some k) log = (lN, false)) /\
  (length lN <= k -> f (Some k) log = (lN, false)) /\
  (length log <= k < length lN -> f (Some k) log = (firstn (S k) lN, true)).

Lemma sim_skip : sim skip.
Proof. intros k log; cbn. repeat split; auto. - exists []; now rewrite app_nil_r. - intros [? ?]; lia. Qed.

Lemma sim_emit1 d : sim (emit1 d).
Proof.
  intros k log; unfold emit1, hit; cbn. repeat split.
  - now exists [d].
  - intros H. destruct (Nat.eqb_spec (length log) k); [lia|reflexivity].
  - rewrite app_length; cbn. intros H. destruct (Nat.eqb_spec (length log) k); [lia|reflexivity].
  - rewrite app_length; cbn. intros H. assert (k = length log) by lia. subst k.
    rewrite Nat.eqb_refl. f_equal. symmetry. apply firstn_all2. rewrite app_length; cbn; lia.
Qed.

Lemma firstn_app_l {A} n (a b : list A) : n <= length a -> firstn n (a ++ b) = firstn n a.
Proof. intros H. rewrite firstn_app. replace (n - length a) with 0 by lia. cbn. now rewrite app_nil_r. Qed.

Lemma sim_seq f g : sim f -> sim g -> sim (seq f g).
Proof.
  intros Hf Hg k log. unfold seq.
  destruct (Hf k log) as (Hf0 & [e1 He1] & Hf1 & Hf2 & Hf3).
  destruct (f None log) as [l1 r1] eqn:EfN; cbn in *. subst r1.
  destruct (Hg k l1) as (Hg0 & [e2 He2] & Hg1 & Hg2 & Hg3).
  destruct (g None l1) as [l2 r2] eqn:EgN; cbn in *. subst r2.
  assert (Hlen1 : length l1 = length log + length e1) by (rewrite He1, app_length; lia).
  assert (Hlen2 : length l2 = length l1 + length e2) by (rewrite He2, app_length; lia).
  repeat split.
  - exists (e1 ++ e2). rewrite He2, He1. now rewrite app_assoc.
  - intros H. rewrite (Hf1 H). apply Hg1. lia.
  - intros H. rewrite Hf2 by lia. apply Hg2. lia.
  - intros [H1 H2]. destruct (le_lt_dec (length l1) k) as [Hge|Hlt].
    + rewrite Hf2 by lia. apply Hg3. lia.
    + rewrite Hf3 by lia. f_equal. rewrite He2. symmetry. apply firstn_app_l. lia.
Qed.

Fixpoint emits (ds : list D) : comp := match ds with [] => skip | d :: t => seq (emit1 d) (emits t) end.
Lemma sim_emits ds : sim (emits ds).
Proof. induction ds; cbn; [apply sim_skip | apply sim_seq; [apply sim_emit1 | assumption]]. Qed.

(* a step: START to all recipients; body; FINISHED always emitted (try/finally); abort anywhere => USER_ABORT *)
Definition step (start body fin : comp) : option nat -> list D -> list D * bool := fun k log =>
  let (l1, r1) := seq start body k log in
  let (l2, r2) := fin k l1 in (l2, r1 || r2).

Theorem step_prefix_closure start body fin : sim start -> sim body -> sim fin ->
  forall k log, let DN := fst (step start body fin None log) in
  let lb := fst (seq start body None log) in
  (* no abort inside this step *)
  ((k < length log \/ length DN <= k) -> step start body fin (Some k) log = (DN, false)) /\
  (* abort before FINISHED is emitted: prefix, then the complete FINISHED emission *)
  (length log <= k < length lb -> step start body fin (Some k) log = (fst (fin None (firstn (S k) lb)), true)) /\
  (* abort while FINISHED is being delivered: plain prefix *)
  (length lb <= k < length DN -> step start body fin (Some k) log = (firstn (S k) DN, true)).
Proof.
  intros Hs Hb Hf k log. pose proof (sim_seq _ _ Hs Hb) as Hsb. unfold step.
  destruct (Hsb k log) as (H0 & [e He] & H1 & H2 & H3).
  destruct (seq start body None log) as [lb rb] eqn:EN; cbn in *. subst rb.
  destruct (Hf k lb) as (F0 & [e2 He2] & F1 & F2 & F3).
  destruct (fin None lb) as [lf rf] eqn:EF; cbn in *. subst rf.
  assert (length lb = length log + length e) by (rewrite He, app_length; lia).
  assert (length lf = length lb + length e2) by (rewrite He2, app_length; lia).
  repeat split.
  - intros [Hk|Hk]; [rewrite (H1 Hk), F1 by lia | rewrite H2, F2 by lia]; reflexivity.
  - intros Hk. rewrite H3 by lia.
    set (pre := firstn (S k) lb).
    assert (Hpre : length pre = S k) by (unfold pre; rewrite firstn_length; lia).
    destruct (Hf k pre) as (G0 & _ & G1 & _ & _). rewrite G1 by lia. cbn. reflexivity.
  - intros Hk. rewrite H2 by lia. rewrite F3 by lia. reflexivity.
Qed.
End Sim.
Print Assumptions step_prefix_closure.
