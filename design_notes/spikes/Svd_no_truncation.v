From Coq Require Import QArith List Bool Lqa Lia. Import ListNotations.
Open Scope Q_scope.
Definition qsum (l : list Q) : Q := fold_right Qplus 0 l.
(* select = cumsum(s2)/sum(s2) < tau ; then the first False is set to True *)
Fixpoint sel (tau T acc : Q) (s : list Q) : list bool :=
  match s with [] => [] | x :: t => let acc' := acc + x in negb (Qle_bool tau (acc' / T)) :: sel tau T acc' t end.
Fixpoint set_first_false (m : list bool) : list bool :=
  match m with [] => [] | true :: t => true :: set_first_false t | false :: t => true :: t end.
Definition select_mask (tau : Q) (s : list Q) : list bool := set_first_false (sel tau (qsum s) 0 s).

Lemma qsum_cons x l : qsum (x :: l) = x + qsum l. Proof. reflexivity. Qed.
Lemma qsum_nonneg l : Forall (fun y => 0 <= y) l -> 0 <= qsum l.
Proof. induction 1 as [|y l Hy _ IH]; [unfold qsum; cbn; lra | rewrite qsum_cons; lra]. Qed.
Lemma qsum_snoc l x : qsum (l ++ [x]) == qsum l + x.
Proof. induction l as [|y l IH]; [unfold qsum; cbn; ring | rewrite <- app_comm_cons, !qsum_cons, IH; ring]. Qed.
Lemma sel_all_but_last tau T kappa : 0 < T -> 1 - kappa < tau ->
  forall s acc x, Forall (fun y => 0 <= y) (s ++ [x]) -> acc + qsum (s ++ [x]) == T -> kappa * T <= x ->
  exists b, sel tau T acc (s ++ [x]) = repeat true (length s) ++ [b].
Proof.
  intros HT Hk. induction s as [|y s IH]; intros acc x Hnn Hsum Hx; cbn.
  - eexists; reflexivity.
  - inversion Hnn as [|? ? Hy Hrest]; subst.
    change (qsum ((y :: s) ++ [x])) with (y + qsum (s ++ [x])) in Hsum.
    assert (Hsum' : acc + y + qsum (s ++ [x]) == T) by lra.
    destruct (IH (acc + y) x Hrest Hsum' Hx) as [b Hb]. rewrite Hb. exists b. f_equal.
    (* acc + y <= T - x <= (1 - kappa) T < tau T *)
    assert (Hq : 0 <= qsum s).
    { apply qsum_nonneg. apply Forall_app in Hrest. tauto. }
    pose proof (qsum_snoc s x) as Hsx.
    assert (Hlt : (acc + y) / T < tau).
    { apply Qlt_shift_div_r; [exact HT|]. rewrite Hsx in Hsum'. nra. }
    destruct (Qle_bool tau ((acc + y) / T)) eqn:E; [apply Qle_bool_iff in E; lra | reflexivity].
Qed.

Lemma set_first_false_all n b : set_first_false (repeat true n ++ [b]) = repeat true (S n).
Proof. induction n; cbn; [destruct b; reflexivity | now rewrite IHn]. Qed.

Theorem no_truncation tau kappa s x : 1 - kappa < tau ->
  Forall (fun y => 0 <= y) (s ++ [x]) -> 0 < qsum (s ++ [x]) -> kappa * qsum (s ++ [x]) <= x ->
  select_mask tau (s ++ [x]) = repeat true (length (s ++ [x])).
Proof.
  intros Hk Hnn HT Hx. unfold select_mask.
  destruct (sel_all_but_last tau _ kappa HT Hk s 0 x Hnn ltac:(ring) Hx) as [b Hb]. rewrite Hb.
  rewrite set_first_false_all, app_length. cbn. now rewrite Nat.add_1_r.
Qed.
(* instantiation with the constants of the code: SVD_TOLERANCE = 0.999, conditioning bound 1 % *)
Corollary no_truncation_code s x : Forall (fun y => 0 <= y) (s ++ [x]) -> 0 < qsum (s ++ [x]) -> (1#100) * qsum (s ++ [x]) <= x ->
  select_mask (999#1000) (s ++ [x]) = repeat true (length (s ++ [x])).
Proof. apply no_truncation. reflexivity. Qed.
Print Assumptions no_truncation_code.
