From Coq Require Import QArith Qabs List Bool Lia Lqa.
Import ListNotations.
Open Scope Q_scope.
(* weighted mean as in _calculate_estimated_functions + the mean estimator *)
Definition qsum (l : list Q) : Q := fold_right Qplus 0 l.
Definition zero_failed (failed : list bool) (w : list Q) : list Q :=
  map (fun fw : bool * Q => if fst fw then 0 else snd fw) (combine failed w).
Definition normalize (w : list Q) : list Q := let s := qsum w in map (fun x => x / s) w.
Definition nan_to_num (f : list (option Q)) : list Q := map (fun o => match o with Some q => q | None => 0 end) f.
Definition dot (a b : list Q) : Q := qsum (map (fun ab : Q * Q => fst ab * snd ab) (combine a b)).
Definition failed_of (f : list (option Q)) : list bool := map (fun o => match o with Some _ => false | None => true end) f.
Definition mean_model (f : list (option Q)) (w : list Q) : Q :=
  dot (nan_to_num f) (normalize (zero_failed (failed_of f) w)).
(* spec: over the surviving members only ("as if the failed ones were absent") *)
Fixpoint surv (f : list (option Q)) (w : list Q) : list (Q * Q) :=
  match f, w with
  | Some q :: f', x :: w' => (q, x) :: surv f' w'
  | None :: f', _ :: w' => surv f' w'
  | _, _ => []
  end.
Definition mean_spec (f : list (option Q)) (w : list Q) : Q :=
  qsum (map (fun p : Q * Q => fst p * snd p) (surv f w)) / qsum (map snd (surv f w)).
Lemma qsum_zero_failed f w : length f = length w ->
  qsum (zero_failed (failed_of f) w) == qsum (map snd (surv f w)).
Proof.
  revert w; induction f as [|o f IH]; intros [|x w] H; simpl in *; try discriminate; try reflexivity.
  injection H as H. specialize (IH w H). unfold zero_failed in *. destruct o; simpl; rewrite IH; ring.
Qed.
Lemma dot_div f w s : length f = length w ->
  dot (nan_to_num f) (map (fun x => x / s) (zero_failed (failed_of f) w)) ==
  qsum (map (fun p : Q * Q => fst p * snd p) (surv f w)) / s.
Proof.
  revert w; induction f as [|o f IH]; intros [|x w] H; simpl in *; try discriminate.
  - unfold dot; simpl. unfold Qdiv. ring.
  - injection H as H. specialize (IH w H). unfold dot, zero_failed in *. simpl.
    destruct o; simpl; rewrite IH; unfold Qdiv; ring.
Qed.
Theorem mean_model_spec f w : length f = length w -> mean_model f w == mean_spec f w.
Proof.
  intros H. unfold mean_model, mean_spec, normalize.
  rewrite dot_div by assumption. rewrite qsum_zero_failed by assumption. reflexivity.
Qed.
Print Assumptions mean_model_spec.
