From Coq Require Import QArith List Bool Lqa Lia. Import ListNotations.
Open Scope Q_scope.
(* ---------- C09: scatter free values into the fixed vector / gather them back ---------- *)
Fixpoint complete {A} (mask : list bool) (fixed free : list A) : list A :=
  match mask, fixed with
  | true :: m, _ :: fx => match free with v :: fr => v :: complete m fx fr | [] => [] end
  | false :: m, x :: fx => x :: complete m fx free
  | _, _ => []
  end.
Fixpoint gather {A} (mask : list bool) (v : list A) : list A :=
  match mask, v with
  | true :: m, x :: t => x :: gather m t
  | false :: m, _ :: t => gather m t
  | _, _ => []
  end.
Definition count_true (m : list bool) := length (filter (fun b => b) m).
Theorem complete_fixed {A} (mask : list bool) (fixed free : list A) i x : length fixed = length mask -> length free = count_true mask ->
  nth_error mask i = Some false -> nth_error fixed i = Some x -> nth_error (complete mask fixed free) i = Some x.
Proof.
  revert fixed free i. induction mask as [|b m IH]; intros fixed free i Hl Hc Hm Hx; [destruct i; discriminate|].
  destruct fixed as [|y fx]; [discriminate|]. cbn in Hl. injection Hl as Hl. destruct b; cbn in *.
  - destruct free as [|v fr]; [discriminate|]. cbn in Hc. injection Hc as Hc. destruct i; cbn in *; [discriminate|]. now apply IH.
  - destruct i; cbn in *; [exact Hx|]. now apply IH.
Qed.
Theorem gather_complete {A} (mask : list bool) (fixed free : list A) : length fixed = length mask -> length free = count_true mask ->
  gather mask (complete mask fixed free) = free /\ length (complete mask fixed free) = length mask.
Proof.
  revert fixed free. induction mask as [|b m IH]; intros fixed free Hl Hc.
  - destruct free; [auto|discriminate].
  - destruct fixed as [|y fx]; [discriminate|]. cbn in Hl. injection Hl as Hl. destruct b; cbn in *.
    + destruct free as [|v fr]; [discriminate|]. cbn in Hc. injection Hc as Hc. destruct (IH fx fr Hl Hc) as [H1 H2]. cbn. now rewrite H1, H2.
    + destruct (IH fx free Hl Hc) as [H1 H2]. now rewrite H1, H2.
Qed.
(* ---------- C18: weight normalisation is idempotent and preserves ratios ---------- *)
Definition qsum (l : list Q) : Q := fold_right Qplus 0 l.
Definition normalize (w : list Q) : list Q := map (fun x => x / qsum w) w.
Lemma qsum_cons x l : qsum (x :: l) = x + qsum l. Proof. reflexivity. Qed.
Lemma qsum_map_div l s : qsum (map (fun x => x / s) l) == qsum l / s.
Proof. induction l as [|x l IH]; [unfold qsum; cbn; unfold Qdiv; ring | cbn [map]; rewrite !qsum_cons, IH; unfold Qdiv; ring]. Qed.
Theorem normalize_sum w : ~ qsum w == 0 -> qsum (normalize w) == 1.
Proof. intros H. unfold normalize. rewrite qsum_map_div. field. exact H. Qed.
Theorem normalize_idempotent w : ~ qsum w == 0 -> Forall2 Qeq (normalize (normalize w)) (normalize w).
Proof.
  intros H. pose proof (normalize_sum w H) as H1. unfold normalize at 1. revert H1. generalize (qsum (normalize w)) as s.
  generalize (normalize w) as l. intros l s Hs. induction l as [|x l IH]; cbn; constructor; auto. rewrite Hs. field.
Qed.
Theorem normalize_ratios w i j a b a' b' : ~ qsum w == 0 -> nth_error w i = Some a -> nth_error w j = Some b ->
  nth_error (normalize w) i = Some a' -> nth_error (normalize w) j = Some b' -> a * b' == b * a'.
Proof.
  intros H Ha Hb Ha' Hb'. unfold normalize in *. rewrite nth_error_map in Ha', Hb'. rewrite Ha in Ha'. rewrite Hb in Hb'.
  cbn in *. injection Ha' as <-. injection Hb' as <-. field. exact H.
Qed.
(* ---------- C16: foreign operations on the global state do not interfere ---------- *)
Section NI.
Variables (G L S : Type) (next : L -> L * S).
Inductive sop := Foreign (f : G -> G) | Sample.
Fixpoint run (ops : list sop) (g : G) (l : L) : list S :=
  match ops with [] => [] | Foreign f :: t => run t (f g) l | Sample :: t => let (l', s) := next l in s :: run t g l' end.
Fixpoint erase (ops : list sop) : nat := match ops with [] => O | Foreign _ :: t => erase t | Sample :: t => Datatypes.S (erase t) end.
Theorem non_interference ops1 ops2 : erase ops1 = erase ops2 -> forall g1 g2 l, run ops1 g1 l = run ops2 g2 l.
Proof.
  revert ops2. induction ops1 as [|o t IH]; intros ops2 H g1 g2 l.
  - induction ops2 as [|o2 t2 IH2] in g2, H |- *; [reflexivity|]. destruct o2; cbn in *; [apply IH2; exact H | discriminate].
  - destruct o; cbn in *; [apply IH; exact H|].
    induction ops2 as [|o2 t2 IH2] in g2, H |- *; [discriminate|]. destruct o2; cbn in *; [apply IH2; exact H|].
    injection H as H. destruct (next l) as [l' s]. f_equal. apply IH. exact H.
Qed.
End NI.
Print Assumptions complete_fixed. Print Assumptions normalize_idempotent. Print Assumptions non_interference.
