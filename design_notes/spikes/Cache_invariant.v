From Coq Require Import List Bool Arith Lia. Import ListNotations.
Section C07.
Variable P : Type.
Variable peq : P -> P -> bool.
Hypothesis peq_eq : forall a b, peq a b = true <-> a = b.
Variable V : Type.
Variables (F G : P -> V).                       (* oracle: ensemble function block / gradient block at a point *)
Variable N : V -> V.                            (* normalisation of the constraint part *)

Record st := { cx : option P; cf : option V; cg : option V; nc : option V }.
Definition empty := {| cx := None; cf := None; cg := None; nc := None |}.
Record params := { spec : bool; split : bool; nograd : bool }.
Definition call := (P * bool * bool)%type.
Inductive op := Obj (x : P) | Grad (x : P) | Con (x : P).
Inductive ret := RVal (v : V) | RNone.

Definition isnone {A} (o : option A) := match o with None => true | Some _ => false end.
Definition invalidate (x : P) (s : st) : st :=
  match cx s with Some y => if peq x y then s else empty | None => empty end.

(* _get_function_or_gradient *)
Definition fetch (pr : params) (s : st) (x : P) (need_f need_g : bool) : st * list call :=
  let s0 := invalidate x s in
  let need_g := need_g && negb (nograd pr) in
  let cmpf := need_f && isnone (cf s0) in
  let cmpg := need_g && isnone (cg s0) in
  if cmpf || cmpg then
    let sp := spec pr && negb (nograd pr) in
    let cmpf := cmpf || sp in
    let cmpg := cmpg || sp in
    let calls := if cmpf && cmpg && split pr then [(x, true, false); (x, false, true)] else [(x, cmpf, cmpg)] in
    ({| cx := Some x; cf := if cmpf then Some (F x) else cf s0; cg := if cmpg then Some (G x) else cg s0; nc := nc s0 |}, calls)
  else (s0, []).

Definition step (pr : params) (s : st) (o : op) : st * list call * ret :=
  match o with
  | Obj x => let (s1, c) := fetch pr s x true false in (s1, c, match cf s1 with Some v => RVal v | None => RNone end)
  | Grad x => let (s1, c) := fetch pr s x false true in (s1, c, match cg s1 with Some v => RVal v | None => RNone end)
  | Con x =>                                     (* _fun: check the point first, then the lazily filled normalised cache *)
      let s0 := invalidate x s in
      match nc s0 with
      | Some w => (s0, [], RVal w)
      | None => let (s1, c) := fetch pr s0 x true false in
                match cf s1 with
                | Some v => ({| cx := cx s1; cf := cf s1; cg := cg s1; nc := Some (N v) |}, c, RVal (N v))
                | None => (s1, c, RNone)
                end
      end
  end.

Definition Inv (s : st) : Prop :=
  (forall v, cf s = Some v -> exists x, cx s = Some x /\ v = F x) /\
  (forall v, cg s = Some v -> exists x, cx s = Some x /\ v = G x) /\
  (forall w, nc s = Some w -> exists x, cx s = Some x /\ w = N (F x)).

Lemma Inv_empty : Inv empty. Proof. repeat split; cbn; intros ? H; discriminate. Qed.

Lemma invalidate_spec x s : Inv s -> Inv (invalidate x s) /\
  (cx (invalidate x s) = Some x \/ invalidate x s = empty).
Proof.
  intros H. unfold invalidate. destruct (cx s) as [y|] eqn:E; [|split; [apply Inv_empty|now right]].
  destruct (peq x y) eqn:Ep; [|split; [apply Inv_empty|now right]].
  apply peq_eq in Ep. subst y. split; [assumption|now left].
Qed.

Lemma fetch_spec pr s x nf ng : Inv s ->
  let '(s1, calls) := fetch pr s x nf ng in
  Inv s1 /\ (nf = true -> cf s1 = Some (F x)) /\ (ng = true -> nograd pr = false -> cg s1 = Some (G x)) /\
  (cx s1 = Some x \/ s1 = empty) /\
  (nograd pr = true -> forall c, In c calls -> snd c = false) /\
  (split pr = true -> forall c, In c calls -> ~ (snd (fst c) = true /\ snd c = true)) /\
  (forall c, In c calls -> fst (fst c) = x).
Proof.
  intros HI. unfold fetch. destruct (invalidate_spec x s HI) as [H0 Hx]. set (s0 := invalidate x s) in *.
  assert (Hcf : forall v, cf s0 = Some v -> v = F x).
  { intros v Hv. destruct H0 as (A & _ & _). destruct (A v Hv) as (y & Hy & ->). destruct Hx as [Hx|Hx]; [congruence|rewrite Hx in Hy; discriminate]. }
  assert (Hcg : forall v, cg s0 = Some v -> v = G x).
  { intros v Hv. destruct H0 as (_ & A & _). destruct (A v Hv) as (y & Hy & ->). destruct Hx as [Hx|Hx]; [congruence|rewrite Hx in Hy; discriminate]. }
  assert (Hnc : forall w, nc s0 = Some w -> w = N (F x)).
  { intros v Hv. destruct H0 as (_ & _ & A). destruct (A v Hv) as (y & Hy & ->). destruct Hx as [Hx|Hx]; [congruence|rewrite Hx in Hy; discriminate]. }
  destruct pr as [sp spl ngd]; cbn [spec split nograd].
  destruct nf, ng, ngd, sp, spl, (cf s0) as [vf|] eqn:Ef, (cg s0) as [vg|] eqn:Eg; cbn;
    try (rewrite ?(Hcf _ eq_refl), ?(Hcg _ eq_refl));
    repeat split; cbn; try tauto; try congruence;
    try (intros v Hv; injection Hv as <-; eexists; split; [reflexivity|]; first [reflexivity | apply Hcf; assumption | apply Hcg; assumption]);
    try (intros w Hw; eexists; split; [reflexivity| apply Hnc; assumption]);
    try (intros v Hv; discriminate);
    try (destruct H0 as (A & B & C); first [apply A | apply B | apply C]; assumption);
    try (intros; intuition (subst; cbn in *; congruence)).
  all: intros; first [rewrite Ef | rewrite Eg]; f_equal; first [apply Hcf | apply Hcg]; reflexivity.
Qed.

(* run a whole request sequence *)
Fixpoint run (pr : params) (s : st) (ops : list op) : list (op * list call * ret) :=
  match ops with [] => [] | o :: t => let '(s1, c, r) := step pr s o in (o, c, r) :: run pr s1 t end.

Definition expected (pr : params) (o : op) : ret :=
  match o with Obj x => RVal (F x) | Grad x => if nograd pr then RNone else RVal (G x) | Con x => RVal (N (F x)) end.

Definition good (pr : params) (o : op) (calls : list call) (r : ret) : Prop :=
  (nograd pr = false \/ (forall x, o <> Grad x) -> r = expected pr o) /\
  (nograd pr = true -> forall c, In c calls -> snd c = false) /\
  (split pr = true -> forall c, In c calls -> ~ (snd (fst c) = true /\ snd c = true)).

Lemma step_spec pr s o : Inv s ->
  let '(s1, calls, r) := step pr s o in Inv s1 /\ good pr o calls r.
Proof.
  intros HI. unfold good. destruct o as [x|x|x]; cbn [step].
  - pose proof (fetch_spec pr s x true false HI) as H. destruct (fetch pr s x true false) as [s1 c].
    destruct H as (H1 & H2 & _ & _ & H5 & H6 & _). rewrite (H2 eq_refl). split; [exact H1 | repeat split; auto].
  - pose proof (fetch_spec pr s x false true HI) as H. destruct (fetch pr s x false true) as [s1 c].
    destruct H as (H1 & _ & H3 & _ & H5 & H6 & _). split; [exact H1 | repeat split; auto].
    intros [Hn|Hn]; [|exfalso; eapply Hn; reflexivity]. cbn. rewrite Hn. rewrite (H3 eq_refl Hn). reflexivity.
  - destruct (invalidate_spec x s HI) as [H0 Hx]. set (s0 := invalidate x s) in *.
    destruct (nc s0) as [w|] eqn:En.
    + split; [exact H0 | repeat split; auto; try (intros; contradiction)].
      intros _. cbn. f_equal. destruct H0 as (_ & _ & C). destruct (C w En) as (y & Hy & ->).
      destruct Hx as [Hx|Hx]; [congruence | rewrite Hx in Hy; discriminate].
    + pose proof (fetch_spec pr s0 x true false H0) as H. destruct (fetch pr s0 x true false) as [s1 c].
      destruct H as (H1 & H2 & _ & H4 & H5 & H6 & _). rewrite (H2 eq_refl). repeat split; auto; cbn.
      * intros v Hv. destruct H1 as (A & _ & _). apply A. rewrite (H2 eq_refl). exact Hv.
      * intros v Hv. destruct H1 as (_ & B & _). apply B. exact Hv.
      * intros w Hw. injection Hw as <-. destruct H1 as (A & _ & _). destruct (A _ (H2 eq_refl)) as (y & Hy & Hv).
        exists y. split; [exact Hy | now rewrite Hv].
Qed.

Theorem values_fresh pr ops : forall s, Inv s ->
  Forall (fun t => good pr (fst (fst t)) (snd (fst t)) (snd t)) (run pr s ops).
Proof.
  induction ops as [|o t IH]; intros s HI; cbn [run]; [constructor|].
  pose proof (step_spec pr s o HI) as H. destruct (step pr s o) as [[s1 c] r].
  destruct H as (H1 & H2). constructor; [exact H2 | apply IH; exact H1].
Qed.
End C07.
Print Assumptions values_fresh.
