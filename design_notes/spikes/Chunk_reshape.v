From Coq Require Import List Arith Lia. Import ListNotations.
Section Chunk.
Variable A : Type.
(* split a flat list into k rows of n entries (np.reshape(k, n) of a row-major array) *)
Fixpoint chunk (k n : nat) (l : list A) : list (list A) :=
  match k with O => [] | S k' => firstn n l :: chunk k' n (skipn n l) end.

Lemma chunk_length k n l : length (chunk k n l) = k.
Proof. revert l; induction k; intros; cbn; auto. Qed.

Lemma nth_error_skipn n (l : list A) i : nth_error (skipn n l) i = nth_error l (n + i).
Proof. revert l; induction n as [|n IH]; intros [|x l]; cbn; auto. destruct i; reflexivity. Qed.
Lemma nth_error_firstn n (l : list A) i : i < n -> nth_error (firstn n l) i = nth_error l i.
Proof. revert l i; induction n as [|n IH]; intros l i H; [lia|]. destruct l as [|x l]; [destruct i; reflexivity|]. destruct i; cbn; auto. apply IH. lia. Qed.

(* index law: entry c of row r is entry r*n + c of the flat list *)
Theorem chunk_index k n l r c row : r < k -> c < n ->
  nth_error (chunk k n l) r = Some row -> nth_error row c = nth_error l (r * n + c).
Proof.
  revert l r; induction k as [|k IH]; intros l r Hr Hc H; [lia|]. cbn in H. destruct r as [|r]; cbn in *.
  - injection H as <-. now apply nth_error_firstn.
  - rewrite (IH _ r ltac:(lia) Hc H). rewrite nth_error_skipn. f_equal. lia.
Qed.

(* concat is the inverse of chunk for rows of equal length (np.vsplit of np.repeat / tile layouts) *)
Theorem chunk_concat k n (rows : list (list A)) : length rows = k -> Forall (fun r => length r = n) rows ->
  chunk k n (concat rows) = rows.
Proof.
  revert k; induction rows as [|r rows IH]; intros k Hk Hall; subst k; cbn; [reflexivity|].
  inversion Hall as [|? ? Hr Hrest]; subst.
  rewrite firstn_app, Nat.sub_diag, firstn_all. cbn. rewrite app_nil_r.
  rewrite skipn_app, Nat.sub_diag, skipn_all. cbn. f_equal. now apply IH.
Qed.
End Chunk.

(* 3-D reshape (R, P, D) of a row-major point matrix (R*P points of dimension D): one point per (r, p) *)
Definition reshape3 {A} (R P D : nat) (flat : list A) : list (list (list A)) := chunk _ R P (chunk _ (R * P) D flat).
Theorem point_integrity {A} R P D (pts : list (list A)) r p blk :
  length pts = R * P -> Forall (fun q => length q = D) pts -> r < R -> p < P ->
  nth_error (reshape3 R P D (concat pts)) r = Some blk -> nth_error blk p = nth_error pts (r * P + p).
Proof.
  intros Hl Hall Hr Hp H. unfold reshape3 in H. rewrite (chunk_concat _ (R * P) D pts Hl Hall) in H.
  now apply (chunk_index _ R P pts r p blk).
Qed.
Print Assumptions point_integrity.
