From Coq Require Import QArith Qabs Qround List Bool Lia Lqa ZArith Permutation.
Import ListNotations.
Open Scope Q_scope.

Definition qsum (l : list Q) : Q := fold_right Qplus 0 l.
Definition nq (n : nat) : Q := inject_Z (Z.of_nat n).

(* staircase along the badness order: m full steps of 1/n, one fraction, zeros *)
Definition stair (p : Q) (n : nat) : list Q :=
  let m := Z.to_nat (Qfloor (p * nq n)) in
  let frac := p - nq m / nq n in
  if Nat.ltb m n then repeat (1 / nq n) m ++ frac :: repeat 0 (n - m - 1)
  else repeat (1 / nq n) n.

Lemma qsum_app a b : qsum (a ++ b) == qsum a + qsum b.
Proof. induction a as [|x a IH]; simpl; [ring | rewrite IH; ring]. Qed.

Lemma qsum_repeat x k : qsum (repeat x k) == nq k * x.
Proof.
  induction k as [|k IH]; simpl; [unfold nq; simpl; ring|].
  rewrite IH. unfold nq. rewrite Nat2Z.inj_succ, <- Z.add_1_r, inject_Z_plus. simpl. ring.
Qed.

Lemma nq_pos n : (0 < n)%nat -> 0 < nq n.
Proof. intros H. unfold nq. change 0 with (inject_Z 0). rewrite <- Zlt_Qlt. lia. Qed.

Lemma floor_bounds p n : (0 < n)%nat -> 0 < p -> p <= 1 ->
  let m := Z.to_nat (Qfloor (p * nq n)) in
  nq m <= p * nq n /\ p * nq n < nq m + 1 /\ (m <= n)%nat.
Proof.
  intros Hn Hp Hp1 m. pose proof (nq_pos n Hn) as Hnq.
  assert (H0 : 0 <= p * nq n) by nra.
  assert (Hf0 : (0 <= Qfloor (p * nq n))%Z).
  { change 0%Z with (Qfloor 0). apply Qfloor_resp_le. exact H0. }
  assert (Hm : nq m == inject_Z (Qfloor (p * nq n))).
  { unfold m, nq. rewrite Z2Nat.id by exact Hf0. reflexivity. }
  split; [|split].
  - rewrite Hm. apply Qfloor_le.
  - rewrite Hm. pose proof (Qlt_floor (p * nq n)) as H. rewrite inject_Z_plus in H. exact H.
  - assert (Hle : (Qfloor (p * nq n) <= Z.of_nat n)%Z).
    { rewrite <- (Qfloor_Z (Z.of_nat n)). apply Qfloor_resp_le. fold (nq n). nra. }
    unfold m. lia.
Qed.

Theorem stair_sum p n : (0 < n)%nat -> 0 < p -> p <= 1 -> qsum (stair p n) == p.
Proof.
  intros Hn Hp Hp1. pose proof (floor_bounds p n Hn Hp Hp1) as [Hlo [Hhi Hmn]].
  pose proof (nq_pos n Hn) as Hnq. unfold stair.
  set (m := Z.to_nat (Qfloor (p * nq n))) in *.
  destruct (Nat.ltb_spec m n) as [Hlt|Hge].
  - rewrite qsum_app. simpl. rewrite !qsum_repeat. field. lra.
  - assert (m = n) by lia. subst m. rewrite qsum_repeat.
    assert (p * nq n == nq n). { rewrite H in *. apply Qle_antisym; [nra | exact Hlo]. }
    assert (p == 1). { apply (Qmult_inj_r _ _ (nq n)); [lra | rewrite H0; ring]. }
    rewrite H1. field. lra.
Qed.

Theorem stair_nonneg p n : (0 < n)%nat -> 0 < p -> p <= 1 -> Forall (fun x => 0 <= x) (stair p n).
Proof.
  intros Hn Hp Hp1. pose proof (floor_bounds p n Hn Hp Hp1) as [Hlo [Hhi Hmn]].
  pose proof (nq_pos n Hn) as Hnq. unfold stair.
  set (m := Z.to_nat (Qfloor (p * nq n))) in *.
  assert (H1n : 0 <= 1 / nq n). { apply Qle_shift_div_l; lra. }
  destruct (Nat.ltb_spec m n).
  - apply Forall_app; split; [apply Forall_forall; intros x Hx; apply repeat_spec in Hx; subst; exact H1n|].
    constructor.
    + assert (nq m / nq n <= p). { apply Qle_shift_div_r; lra. } lra.
    + apply Forall_forall; intros x Hx; apply repeat_spec in Hx; subst; lra.
  - apply Forall_forall; intros x Hx; apply repeat_spec in Hx; subst; exact H1n.
Qed.
Print Assumptions stair_sum.
Print Assumptions stair_nonneg.
