import numpy as np, itertools, warnings, sys
warnings.simplefilter("ignore")
from ropt.config.enopt import EnOptConfig
from ropt.ensemble_evaluator import EnsembleEvaluator
from ropt.evaluator import EvaluatorResult
from ropt.exceptions import OptimizationAborted
from ropt.plugins import PluginManager
pm = PluginManager(); rng = np.random.default_rng(0)
def dy(lo, hi, size=None): return rng.integers(lo*16, hi*16+1, size=size)/16.0

def ref_filter(kind, opts, objs, cons, cfgw, ow, failed, lb, ub):
    R = len(cfgw); ok = [r for r in range(R) if not failed[r]]
    if kind.startswith("sort"):
        key = (objs[:, opts["sort"]] @ ow[opts["sort"]]) if kind == "sort-objective" and len(ow) > 1 else (objs[:, opts["sort"]].ravel() if kind == "sort-objective" else cons[:, opts["sort"]])
        order = sorted(ok, key=lambda r: key[r]); sel = order[opts["first"]:opts["last"]+1]
        w = np.zeros(R); w[sel] = cfgw[sel]; return w, key
    else:
        if kind == "cvar-objective":
            key = -((objs[:, opts["sort"]] @ ow[opts["sort"]]) if len(ow) > 1 else objs[:, opts["sort"]].ravel())
        else:
            c = cons[:, opts["sort"]]; key = -np.maximum(lb[opts["sort"]] - c, c - ub[opts["sort"]])
        order = sorted(ok, key=lambda r: key[r]); n = len(ok); w = np.zeros(R)
        if n == 0: return w, key
        p = opts["percentile"]; m = int(np.floor(p*n + 1e-12))
        for r in order[:m]: w[r] = 1.0/n
        if m < n: w[order[m]] = max(p - m/n, 0)
        return w, key
def est(kind, col, w, failed):
    w = np.where(failed, 0, w); 
    if w.sum() == 0: return None
    w = w / w.sum(); col = np.nan_to_num(col)
    if kind == "mean": return float(col @ w)
    N = np.count_nonzero(w > 0)
    if np.count_nonzero(w) < 2: return "abort"
    m = col @ w; return float(np.sqrt(N/(N-1) * (((col-m)**2) @ w)))
bad = 0; tot = 0; kinds = {}
for it in range(4000):
    R = rng.integers(1, 7); no = rng.integers(1, 4); nc = rng.integers(0, 3); B = rng.integers(1, 4)
    cfgw = dy(0, 2, R); 
    if cfgw.sum() == 0: cfgw[0] = 1
    oww = dy(0, 2, no); 
    if oww.sum() == 0: oww[0] = 1
    nfilt = rng.integers(0, 3); filters = []
    lb = np.where(rng.random(nc) < .4, -np.inf, dy(-2, 0, nc)); ub = np.where(rng.random(nc) < .4, np.inf, dy(1, 3, nc))
    for k in range(nfilt):
        choices = ["sort-objective", "cvar-objective"] + (["sort-constraint", "cvar-constraint"] if nc else [])
        kind = choices[rng.integers(len(choices))]
        if kind == "sort-objective": f0 = int(rng.integers(0, R)); o = {"sort": sorted(set(rng.integers(0, no, rng.integers(1, no+1)).tolist())), "first": f0, "last": int(rng.integers(f0, R))}
        elif kind == "sort-constraint": f0 = int(rng.integers(0, R)); o = {"sort": int(rng.integers(nc)), "first": f0, "last": int(rng.integers(f0, R))}
        elif kind == "cvar-objective": o = {"sort": sorted(set(rng.integers(0, no, rng.integers(1, no+1)).tolist())), "percentile": float(rng.integers(1, 9)/8)}
        else: o = {"sort": int(rng.integers(nc)), "percentile": float(rng.integers(1, 9)/8)}
        filters.append({"method": kind, "options": o})
    ofm = rng.integers(-1, max(nfilt, 1), no) if nfilt else None; cfm = rng.integers(-1, max(nfilt, 1), nc) if nfilt and nc else None
    ests = [{"method": "mean"}, {"method": "stddev"}]; oem = rng.integers(0, 2, no); cem = rng.integers(0, 2, nc) if nc else None
    rmin = int(rng.integers(0, R+1))
    cfg = {"variables": {"initial_values": [0.0, 0.0]}, "realizations": {"weights": cfgw.tolist(), "realization_min_success": rmin},
           "objectives": {"weights": oww.tolist(), "function_estimators": oem.tolist()}, "function_estimators": ests, "realization_filters": filters}
    if ofm is not None: cfg["objectives"]["realization_filters"] = ofm.tolist()
    if nc: 
        cfg["nonlinear_constraints"] = {"lower_bounds": lb.tolist(), "upper_bounds": ub.tolist(), "function_estimators": cem.tolist()}
        if cfm is not None: cfg["nonlinear_constraints"]["realization_filters"] = cfm.tolist()
    objs = dy(-4, 4, (B, R, no)); cons = dy(-4, 4, (B, R, nc)) if nc else None
    # avoid ties in keys: add tiny distinct dyadic offsets
    objs += (np.arange(B*R*no).reshape(B, R, no) % 97) / 1024.0
    if nc: cons += (np.arange(B*R*nc).reshape(B, R, nc) % 89) / 1024.0
    nanmask = rng.random((B, R)) < rng.choice([0, .2, .5])
    which = rng.integers(0, no+nc, (B, R))
    O = objs.copy(); C = cons.copy() if nc else None
    for b in range(B):
        for r in range(R):
            if nanmask[b, r]:
                if which[b, r] < no: O[b, r, which[b, r]] = np.nan
                else: C[b, r, which[b, r]-no] = np.nan
    def ev(variables, ctx):
        n = variables.shape[0]; assert n == B*R
        idx = np.arange(n)//R
        return EvaluatorResult(objectives=O[idx, ctx.realizations].copy(), constraints=None if not nc else C[idx, ctx.realizations].copy())
    try:
        c = EnOptConfig.model_validate(cfg); ee = EnsembleEvaluator(c, None, ev, pm)
    except Exception as e:
        kinds[type(e).__name__] = kinds.get(type(e).__name__, 0) + 1; continue
    X = np.zeros((B, 2)) if B > 1 or rng.random() < .5 else np.zeros(2)
    try:
        res = ee.calculate(X, compute_functions=True, compute_gradients=False); exc = None
    except OptimizationAborted as e: exc = "abort"; res = None
    except Exception as e: exc = type(e).__name__; res = None
    tot += 1
    cw = c.realizations.weights; ow = c.objectives.weights
    # reference per batch
    ref_abort = False; refs = []
    for b in range(B):
        failed = nanmask[b]
        fw = []
        for f in filters:
            w, _ = ref_filter(f["method"], f["options"], np.where(failed[:, None], np.nan, objs[b]), None if not nc else np.where(failed[:, None], np.nan, cons[b]), cw, ow, failed, lb, ub)
            fw.append(w)
        used = set(([] if ofm is None else [int(k) for k in ofm if 0 <= k < nfilt]) + ([] if cfm is None else [int(k) for k in cfm if 0 <= k < nfilt]))
        for k in used:
            if not np.any(fw[k] > 0): ref_abort = True
        if ref_abort: break
        if np.count_nonzero(~failed) < rmin: refs.append(None); continue
        if failed.all(): refs.append("allnan"); continue
        vals = []
        for j in range(no):
            w = fw[ofm[j]] if ofm is not None and 0 <= ofm[j] < nfilt else cw
            vals.append(est(["mean", "stddev"][oem[j]], objs[b][:, j], w, failed))
        for j in range(nc):
            w = fw[cfm[j]] if cfm is not None and 0 <= cfm[j] < nfilt else cw
            vals.append(est(["mean", "stddev"][cem[j]], cons[b][:, j], w, failed))
        refs.append(vals)
    if ref_abort or any(isinstance(v, list) and "abort" in v for v in refs):
        if exc != "abort": bad += 1; print("MISMATCH expected abort, got", exc, cfg, file=sys.stderr)
        continue
    if exc is not None:
        if any(isinstance(v, list) and None in v for v in refs): continue   # zero-weight survivors: outside quantifier
        bad += 1; print("MISMATCH unexpected", exc, "refs", refs, cfg, nanmask, file=sys.stderr); continue
    for b in range(B):
        r = res[b]; v = refs[b]
        if not np.array_equal(r.realizations.failed_realizations, nanmask[b]): bad += 1; print("FAILED FLAGS", file=sys.stderr); break
        if v is None:
            if r.functions is not None: bad += 1; print("GATE", cfg, nanmask[b], file=sys.stderr)
            continue
        if r.functions is None: bad += 1; print("GATE2", rmin, nanmask[b], file=sys.stderr); continue
        if v == "allnan": continue
        if None in v: continue
        got = np.concatenate([r.functions.objectives, [] if not nc else r.functions.constraints])
        if not np.allclose(got, v, rtol=1e-9, atol=1e-12):
            bad += 1; print("VALUE MISMATCH", got, v, cfg, nanmask[b], file=sys.stderr); break
        wo = float(np.dot(ow, r.functions.objectives))
        if not np.isclose(wo, float(r.functions.weighted_objective)): bad += 1; print("WOBJ", file=sys.stderr)
print("cases", tot, "bad", bad, "config errors", kinds)
