import numpy as np, warnings, sys, itertools
warnings.simplefilter("ignore")
from ropt.evaluator import EvaluatorResult
from ropt.plan import OptimizerContext, Plan
from ropt.enums import EventType, OptimizerExitCode
from ropt.exceptions import OptimizationAborted
from ropt.plugins import PluginManager
from ropt.plugins.optimizer.base import Optimizer, OptimizerPlugin
from ropt.results import FunctionResults

class Scripted(Optimizer):
    script = []; allow = False; par = False
    def __init__(self, config, cb): self.cb = cb
    def start(self, x0):
        for kind, batch in Scripted.script:
            x = np.tile(x0, (batch, 1)) if batch > 0 else x0
            self.cb(x, return_functions=kind in ("F", "FG"), return_gradients=kind in ("G", "FG"))
    @property
    def allow_nan(self): return Scripted.allow
    @property
    def is_parallel(self): return Scripted.par
class SP(OptimizerPlugin):
    def create(self, config, cb): return Scripted(config, cb)
    def is_supported(self, method): return method.lower() == "run"
pm = PluginManager(); pm.add_plugin("optimizer", "script", SP())

def run(script, faults, maxf, rmin, allow):
    Scripted.script = script; Scripted.allow = allow; Scripted.par = any(b > 0 for _, b in script)
    calls = {"n": 0}; delivered = []; events = []
    def ev(variables, ctx):
        i = calls["n"]; calls["n"] += 1; f = faults.get(i)
        if f == "raise": raise ValueError("boom")
        if f == "abort": raise OptimizationAborted(exit_code=OptimizerExitCode.USER_ABORT)
        o = (variables**2).sum(axis=1, keepdims=True) + 1.0
        if f == "allnan": o[:] = np.nan
        if f == "onenan": o[ctx.realizations == 0] = np.nan
        return EvaluatorResult(objectives=o)
    ctx = OptimizerContext(evaluator=ev, plugin_manager=pm)
    ctx.add_observer(EventType.FINISHED_EVALUATION, lambda e: delivered.extend(type(r).__name__[0] for r in e.data["results"]))
    for et in EventType: ctx.add_observer(et, lambda e: events.append(e.event_type.name))
    plan = Plan(ctx); st = plan.add_step("optimizer")
    cfg = {"variables": {"initial_values": [0.0, 0.0]}, "realizations": {"weights": [1, 1], "realization_min_success": rmin}, "gradient": {"number_of_perturbations": 1},
           "optimizer": {"method": "script/run", "max_functions": maxf}}
    try: out = plan.run_step(st, config=cfg).name
    except BaseException as e: out = "EXC " + type(e).__name__
    return out, "".join(delivered), events

def model(script, faults, maxf, rmin, allow):
    completed = 0; delivered = ""; events = ["START_OPTIMIZER_STEP"]; out = None; i = 0; cache = False
    for kind, batch in script:
        if maxf is not None and completed >= maxf: out = "MAX_FUNCTIONS_REACHED"; break
        events.append("START_EVALUATION"); f = faults.get(i); i += 1
        if f == "raise": return "EXC ValueError", delivered, events      # propagates, FINISHED step not emitted
        if f == "abort": out = "USER_ABORT"; break
        nb = max(batch, 1)
        succ = 0 if f == "allnan" else 1 if f == "onenan" else 2
        toofew = succ < rmin or (rmin < 1 and not allow and succ == 0)
        res = ""
        if kind == "F": res = "F" * nb; cache = True
        elif kind == "G" and cache: res = "G"
        else: res = "FG"; cache = False        # gradient without a cached function: both are evaluated
        delivered += res; events.append("FINISHED_EVALUATION")
        if toofew: out = "TOO_FEW_REALIZATIONS"; break
        if kind in ("F", "FG"): completed += nb
    if out is None: out = "OPTIMIZER_STEP_FINISHED"
    events.append("FINISHED_OPTIMIZER_STEP")
    return out, delivered, events
tot = bad = 0
reqs = [("F", 0), ("G", 0), ("FG", 0), ("F", 2)]
for L in (1, 2, 3):
    for script in itertools.product(reqs, repeat=L):
        for fi in range(L + 1):
            for fk in (None, "raise", "abort", "allnan", "onenan"):
                if (fk is None) != (fi == L): continue
                faults = {} if fk is None else {fi: fk}
                for maxf in (None, 1, 2, 3):
                    for rmin in (0, 1, 2):
                        for allow in (False, True):
                            got = run(list(script), faults, maxf, rmin, allow); exp = model(list(script), faults, maxf, rmin, allow); tot += 1
                            if got != exp:
                                bad += 1
                                if bad < 6: print("MISMATCH", script, faults, maxf, rmin, allow, "\n impl ", got, "\n model", exp, file=sys.stderr)
print("C14 runs", tot, "bad", bad)
