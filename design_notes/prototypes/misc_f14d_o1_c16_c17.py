import numpy as np, warnings, sys, copy
warnings.simplefilter("ignore")
from numpy.random import default_rng
from ropt.config.enopt import EnOptConfig
from ropt.ensemble_evaluator import EnsembleEvaluator
from ropt.evaluator import EvaluatorResult
from ropt.plan import BasicOptimizer, OptimizerContext, Plan
from ropt.plugins import PluginManager
from ropt.plugins.sampler.scipy import SciPySampler
from ropt.transforms import OptModelTransforms, VariableScaler
pm = PluginManager()
# F14d: evaluator step batch, 2nd vector fails
def ev(variables, ctx):
    o = (variables**2).sum(axis=1, keepdims=True); o[variables[:, 0] > 0.5] = np.nan; return EvaluatorResult(objectives=o)
plan = Plan(OptimizerContext(evaluator=ev)); st = plan.add_step("evaluator"); store = plan.add_handler("store", sources={st})
code = plan.run_step(st, config={"variables": {"initial_values": [0.0, 0.0]}}, variables=[[0, 0], [1, 1]])
print("F14d exit:", code.name, "functions:", [r.functions is not None for r in plan.get(store, "results")])

# O1: evaluator step with explicit variables and a variable scaler
reqs = []
def ev2(variables, ctx): reqs.append(variables.copy()); return EvaluatorResult(objectives=(variables**2).sum(axis=1, keepdims=True))
tr = OptModelTransforms(variables=VariableScaler(np.array([2.0, 4.0]), np.array([1.0, 1.0])))
plan = Plan(OptimizerContext(evaluator=ev2)); st = plan.add_step("evaluator")
plan.run_step(st, config={"variables": {"initial_values": [3.0, 5.0]}}, transforms=tr); print("O1 variables=None  -> evaluator got", reqs[-1])
plan.run_step(st, config={"variables": {"initial_values": [3.0, 5.0]}}, transforms=tr, variables=[3.0, 5.0]); print("O1 variables=[3,5] -> evaluator got", reqs[-1])

# C16: global RNG touches during a run
import numpy.random as npr
touch = []
orig = npr.mtrand._rand
class Spy:
    def __getattr__(self, name): touch.append(name); return getattr(orig, name)
for name in ("seed", "random", "normal", "uniform", "rand", "randn", "standard_normal", "random_sample", "get_state"):
    setattr(npr, "_orig_"+name, getattr(npr, name))
    def mk(n): 
        def f(*a, **k): touch.append(n); return getattr(npr, "_orig_"+n)(*a, **k)
        return f
    setattr(npr, name, mk(name))
def quad(variables, ctx): return EvaluatorResult(objectives=((variables-0.5)**2).sum(axis=1, keepdims=True))
for m in ("norm", "uniform", "truncnorm", "sobol", "halton", "lhs"):
    BasicOptimizer({"variables": {"initial_values": [0.0, 0.0]}, "optimizer": {"max_functions": 3}, "samplers": [{"method": m}]}, quad).run()
BasicOptimizer({"variables": {"initial_values": [0.2, 0.2], "lower_bounds": 0, "upper_bounds": 1}, "optimizer": {"method": "differential_evolution", "max_functions": 20, "options": {"seed": 3}}}, quad).run()
print("C16 global RNG touches:", touch)

# C17: stats samplers vs identically seeded scipy; shared; second call
from scipy.stats import norm, uniform, truncnorm
cfg = EnOptConfig.model_validate({"variables": {"initial_values": [0.0]*4, "mask": [True, False, True, True]}, "realizations": {"weights": [1, 1, 1]},
    "gradient": {"number_of_perturbations": 2, "samplers": [0, 0, 1, 0]}, "samplers": [{"method": "uniform", "shared": True}, {"method": "halton"}]})
m0 = np.array([True, False, False, True])
s = SciPySampler(cfg, 0, m0, default_rng(5)); a = s.generate_samples(); b = s.generate_samples()
r = default_rng(5); e1 = uniform.rvs(size=(1, 2, 2), random_state=r, loc=-1, scale=2); e2 = uniform.rvs(size=(1, 2, 2), random_state=r, loc=-1, scale=2)
print("C17 uniform shared: shape", a.shape, "zeros ok", np.all(a[..., ~m0] == 0), "shared ok", np.all(a[0] == a[1]) and np.all(a[1] == a[2]), "matches engine", np.array_equal(a[0][:, m0], e1[0]), np.array_equal(b[0][:, m0], e2[0]), "range", a.min() >= -1 and a.max() <= 1)
