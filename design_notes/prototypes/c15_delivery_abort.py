import numpy as np, warnings, sys
warnings.simplefilter("ignore")
from ropt.evaluator import EvaluatorResult
from ropt.plan import OptimizerContext, Plan, Event
from ropt.enums import EventType, OptimizerExitCode
from ropt.exceptions import OptimizationAborted, PlanAborted
from ropt.plugins import PluginManager
from ropt.plugins.plan.base import PlanHandlerPlugin, ResultHandler

class Rec(ResultHandler):
    def __init__(self, plan, *, tag, world): super().__init__(plan); self.tag = tag; self.world = world
    def handle_event(self, event): self.world.deliver(self.tag, event)
class RecPlugin(PlanHandlerPlugin):
    def create(self, name, plan, **kw): return Rec(plan, **kw)
    def is_supported(self, method): return method.lower() == "rec"
class World:
    def __init__(self, k): self.k = k; self.log = []; self.names = {}
    def deliver(self, who, event):
        self.log.append((who, self.names.get(event.source, "?"), event.event_type.name))
        if len(self.log) - 1 == self.k: raise OptimizationAborted(exit_code=OptimizerExitCode.USER_ABORT)
def quad(variables, ctx): return EvaluatorResult(objectives=((variables - 0.5)**2).sum(axis=1, keepdims=True))

def scenario(kind, k):
    w = World(k); pm = PluginManager(); pm.add_plugin("plan_handler", "rec", RecPlugin())
    ctx = OptimizerContext(evaluator=quad, plugin_manager=pm)
    for et in EventType: ctx.add_observer(et, lambda ev: w.deliver("obs", ev))
    res = {}
    try:
        if kind in ("optimizer", "evaluator"):
            plan = Plan(ctx); st = plan.add_step(kind); w.names[st] = "S"
            plan.add_handler("rec", tag="h1", world=w); plan.add_handler("rec", tag="h2", world=w)
            res["exit"] = plan.run_step(st, config={"variables": {"initial_values": [0.0, 0.0]}, "optimizer": {"max_functions": 2}}).name
            res["aborted"] = (plan.aborted,); n_first = len(w.log); w.k = 10**9
            try: plan.run_step(st, config={"variables": {"initial_values": [0.0, 0.0]}, "optimizer": {"max_functions": 1}}); res["next"] = "ran"
            except PlanAborted: res["next"] = "PlanAborted"
            del w.log[n_first:]
        else:
            outer_cfg = {"variables": {"initial_values": [0.0, 0.0], "mask": [True, False]}, "optimizer": {"max_functions": 2}}
            inner_cfg = {"variables": {"initial_values": [0.0, 0.0], "mask": [False, True]}, "optimizer": {"max_functions": 1}}
            inner = Plan(ctx); ist = inner.add_step("optimizer"); w.names[ist] = "I"; itr = inner.add_handler("tracker", sources={ist}); inner.add_handler("rec", tag="hi", world=w)
            def f(plan, variables):
                plan.run_step(ist, config=inner_cfg, variables=variables); return inner.get(itr, "results")
            inner.add_function(f)
            outer = Plan(ctx); ost = outer.add_step("optimizer"); w.names[ost] = "O"; outer.add_handler("rec", tag="ho", world=w)
            res["exit"] = outer.run_step(ost, config=outer_cfg, nested_optimization=inner).name
            res["aborted"] = (outer.aborted, inner.aborted)
    except BaseException as e:
        res["exit"] = "EXC " + type(e).__name__
    return w.log, res

def recipients(kind, src):
    if kind != "nested": return ["h1", "h2", "obs"]
    return ["hi", "ho", "obs"] if src == "I" else ["ho", "obs"]
def predict(kind, full, k):
    log = list(full[:k+1]); 
    # which steps are open after the prefix?  a step is open if a START_*_STEP delivery happened and no FINISHED_*_STEP delivery yet
    open_steps = []
    for who, src, et in log:
        if et.startswith("START_") and et.endswith("_STEP") and (not open_steps or open_steps[-1] != src) and src not in open_steps: open_steps.append(src)
        if et.startswith("FINISHED_") and et.endswith("_STEP") and src in open_steps: open_steps.remove(src)
    # an aborting START_STEP delivery still opens the step (emitted); close innermost first
    for src in reversed(open_steps):
        et = "FINISHED_EVALUATOR_STEP" if kind == "evaluator" else "FINISHED_OPTIMIZER_STEP"
        log += [(r, src, et) for r in recipients(kind, src)]
    return log
tot = bad = 0
for kind in ("optimizer", "evaluator", "nested"):
    full, res0 = scenario(kind, 10**9)
    print(kind, "unaborted deliveries:", len(full), res0)
    for k in range(len(full)):
        log, res = scenario(kind, k); exp = predict(kind, full, k); tot += 1
        good = log == exp and res["exit"] == "USER_ABORT" and res["aborted"][0] and res.get("next", "PlanAborted") == "PlanAborted"
        if kind == "nested":
            # inner plan aborted iff abort happened while inner step open
            pass
        if not good:
            bad += 1
            if bad < 6: print("MISMATCH", kind, k, full[k], res, "\n impl tail", log[k+1:], "\n model tail", exp[k+1:], file=sys.stderr)
print("abort points", tot, "bad", bad)
