import numpy as np, warnings, json
warnings.simplefilter("ignore")
from pydantic import BaseModel
from ropt.config.enopt import EnOptConfig
from ropt.transforms import OptModelTransforms, VariableScaler
def sweep(obj, path="cfg", out=None, seen=None):
    out = [] if out is None else out; seen = set() if seen is None else seen
    if id(obj) in seen: return out
    seen.add(id(obj))
    if isinstance(obj, np.ndarray):
        try:
            if obj.size: obj.flat[0] = obj.flat[0]; out.append(("WRITABLE ARRAY", path))
        except ValueError: pass
    elif isinstance(obj, BaseModel):
        for name in type(obj).model_fields:
            val = getattr(obj, name)
            try: setattr(obj, name, val); out.append(("SETATTR OK", path + "." + name))
            except Exception: pass
            sweep(val, path + "." + name, out, seen)
    elif isinstance(obj, (tuple, list)):
        for i, v in enumerate(obj): sweep(v, f"{path}[{i}]", out, seen)
    return out
full = {"variables": {"initial_values": [0.0, 0.5, 1.0], "lower_bounds": [0, 0, 0], "upper_bounds": [2, 4, 8], "mask": [True, False, True], "types": [1, 1, 2]},
  "objectives": {"weights": [1, 3], "realization_filters": [0, -1], "function_estimators": [0, 1]},
  "realizations": {"weights": [1, 2, 3], "realization_min_success": 9},
  "gradient": {"number_of_perturbations": 3, "perturbation_min_success": 7, "perturbation_types": [2, 1, 2], "perturbation_magnitudes": 0.1, "boundary_types": 2, "samplers": [0, 1, 0], "seed": [1, 2]},
  "linear_constraints": {"coefficients": [[1, 1, 0]], "lower_bounds": 0, "upper_bounds": [1]},
  "nonlinear_constraints": {"lower_bounds": [0, 1], "upper_bounds": 5, "realization_filters": [0, 0], "function_estimators": [0, 0]},
  "optimizer": {"method": "slsqp", "max_iterations": 3, "options": {"a": 1}},
  "realization_filters": [{"method": "sort-objective", "options": {"sort": [0], "first": 0, "last": 1}}],
  "function_estimators": [{"method": "mean"}, {"method": "stddev"}], "samplers": [{"method": "norm"}, {"method": "sobol", "shared": True}]}
for label, tr in (("no transform", None), ("scaler", OptModelTransforms(variables=VariableScaler(np.array([2.0, 4.0, 1.0]), np.array([1.0, 1.0, 0.0]))))):
    c = EnOptConfig.model_validate(full, context=tr)
    print(label, "->", sweep(c))
    class Enc(json.JSONEncoder):
        def default(self, o): return o.tolist() if isinstance(o, np.ndarray) else (sorted(o) if isinstance(o, set) else str(o))
    d = c.model_dump(round_trip=True)
    c2 = EnOptConfig.model_validate(json.loads(json.dumps(d, cls=Enc)))
    def flat(o, pre=""):
        r = {}
        if isinstance(o, dict):
            for k, v in o.items(): r.update(flat(v, pre + "." + k))
        elif isinstance(o, (list, tuple)) and o and isinstance(o[0], dict):
            for i, v in enumerate(o): r.update(flat(v, f"{pre}[{i}]"))
        else: r[pre] = o
        return r
    f1, f2 = flat(d), flat(c2.model_dump(round_trip=True))
    diffs = [k for k in f1 if not (np.array_equal(np.asarray(f1[k], dtype=object) if not isinstance(f1[k], np.ndarray) else f1[k], np.asarray(f2[k], dtype=object) if not isinstance(f2[k], np.ndarray) else f2[k]) or (isinstance(f1[k], np.ndarray) and np.allclose(f1[k], f2[k])))]
    print("  revalidation diffs:", diffs)
    print("  canonical:", c.realizations.weights, c.realizations.realization_min_success, c.gradient.perturbation_min_success, c.objectives.weights, c.nonlinear_constraints.upper_bounds, c.gradient.perturbation_magnitudes)
