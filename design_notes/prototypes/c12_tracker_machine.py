import numpy as np, itertools, warnings, sys, uuid
warnings.simplefilter("ignore")
from ropt.config.enopt import EnOptConfig
from ropt.enums import EventType
from ropt.plan import OptimizerContext, Plan, Event
from ropt.results import FunctionResults, GradientResults, Functions, FunctionEvaluations, Realizations, ConstraintInfo, GradientEvaluations, Gradients
cfg = EnOptConfig.model_validate({"variables": {"initial_values": [0.0]}})
def mkF(obj, feasible, flip, tag):
    def one(o):
        return FunctionResults(batch_id=tag, metadata={}, evaluations=FunctionEvaluations.create(variables=np.array([float(tag)]), objectives=np.array([[0.0]])),
            realizations=Realizations(failed_realizations=np.array([False])), functions=None if o is None else Functions.create(weighted_objective=np.array(o), objectives=np.array([o])),
            constraint_info=ConstraintInfo(bound_lower=np.array([0.0 if feasible else -1.0]), bound_upper=np.array([-1.0])))
    t = one(obj); u = one(None if obj is None else (-obj if flip else obj))
    return u, t
def mkG(tag):
    g = GradientResults(batch_id=tag, metadata={}, evaluations=GradientEvaluations.create(variables=np.array([0.0]), perturbed_variables=np.zeros((1,1,1)), perturbed_objectives=np.zeros((1,1,1))),
        realizations=Realizations(failed_realizations=np.array([False])), gradients=None)
    return g, g
alphabet = [(o, f, k, s) for o in (np.nan, 1.0, 2.0, 3.0, None) for f in (True, False) for k in ("F", "G") for s in ("tracked", "other")]
bad = tot = 0
for flip in (False, True):
  for tol in (1e-10, None):
    for what in ("best", "last"):
      for L in (1, 2, 3):
        for hist in itertools.product(range(len(alphabet)), repeat=L):
            if L == 3 and (hist[0] % 3 or hist[1] % 2): continue   # thin out
            plan = Plan(OptimizerContext(evaluator=None)); src = uuid.uuid4(); other = uuid.uuid4()
            tr = plan.add_handler("tracker", what=what, constraint_tolerance=tol, sources={src})
            model = None; mbest = None
            for i, a in enumerate(hist):
                o, f, k, s = alphabet[a]
                u, t = mkF(o, f, flip, i) if k == "F" else mkG(i)
                plan.emit_event(Event(event_type=EventType.FINISHED_EVALUATION, config=cfg, source=src if s == "tracked" else other, data={"results": (u,), "transformed_results": (t,)}))
                feas = f or tol is None
                if s == "tracked" and k == "F" and o is not None and feas:
                    if what == "last": model = i
                    elif not np.isnan(o) and (mbest is None or o < mbest): model, mbest = i, o
            got = plan.get(tr, "results"); got = None if got is None else got.batch_id
            tot += 1
            if got != model:
                bad += 1
                if bad < 5: print("MISMATCH", flip, tol, what, [alphabet[a] for a in hist], "impl", got, "model", model, file=sys.stderr)
print("histories", tot, "bad", bad)
