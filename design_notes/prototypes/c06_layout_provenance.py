import numpy as np, warnings, sys
warnings.simplefilter("ignore")
from ropt.config.enopt import EnOptConfig
from ropt.ensemble_evaluator import EnsembleEvaluator
from ropt.evaluator import EvaluatorResult
from ropt.plugins import PluginManager
from ropt.transforms import OptModelTransforms, VariableScaler
pm = PluginManager(); rng = np.random.default_rng(4); bad = tot = 0
for it in range(600):
    R = rng.integers(1, 5); P = rng.integers(1, 5); B = rng.integers(1, 4); V = 2; nc = rng.integers(0, 3)
    w = rng.integers(0, 3, R).astype(float); 
    if w.sum() == 0: w[0] = 1
    kind = ["F", "G", "FG"][rng.integers(3)]; usetr = rng.random() < .5
    tr = OptModelTransforms(variables=VariableScaler(np.array([2.0, 4.0]), np.array([1.0, -1.0]))) if usetr else None
    cfgd = {"variables": {"initial_values": [0.25, 0.5]}, "realizations": {"weights": w.tolist(), "realization_min_success": 0}, "gradient": {"number_of_perturbations": int(P), "perturbation_min_success": 1}}
    if nc: cfgd["nonlinear_constraints"] = {"lower_bounds": [0.0]*nc, "upper_bounds": [1.0]*nc}
    cfg = EnOptConfig.model_validate(cfgd, context=tr); calls = []
    keep = []
    def ev(variables, ctx):
        n = variables.shape[0]
        o = np.arange(n, dtype=float)[:, None] + 100*len(calls) + 0.5     # row id as value
        c = None if not nc else np.tile(o, (1, nc)) + 0.25
        info = {"id": np.arange(n) + 1000*len(calls)}
        er = EvaluatorResult(objectives=o, constraints=c, evaluation_info=info)
        calls.append((variables.copy(), ctx, o.copy(), None if c is None else c.copy(), er, info["id"].copy()))
        return er
    ee = EnsembleEvaluator(cfg, tr, ev, pm)
    X = cfg.variables.initial_values if kind != "F" or B == 1 and rng.random() < .5 else np.tile(cfg.variables.initial_values, (B, 1)) + np.arange(B)[:, None]/8
    res = ee.calculate(X, compute_functions="F" in kind, compute_gradients="G" in kind)
    tot += 1; ok = True
    Xb = np.atleast_2d(X); nb = Xb.shape[0]
    if kind == "F":
        (xs, ctx, o, c, er, ids), = calls
        lab = [(b, r) for b in range(nb) for r in range(R)]
        ok &= xs.shape[0] == len(lab) and list(ctx.realizations) == [r for _, r in lab] and ctx.perturbations is None
        xu = Xb if tr is None else tr.variables.from_optimizer(Xb)
        ok &= all(np.allclose(xs[i], xu[b]) for i, (b, r) in enumerate(lab))
        for b in range(nb):
            ok &= np.array_equal(res[b].evaluations.objectives[:, 0], [o[b*R + r, 0] for r in range(R)])
    else:
        (xs, ctx, o, c, er, ids) = calls[-1]
        both = len(res) == 2
        lab = ([(r, -1) for r in range(R)] if both else []) + [(r, p) for r in range(R) for p in range(P)]
        ok &= list(ctx.realizations) == [r for r, _ in lab] and list(ctx.perturbations) == [p for _, p in lab]
        g = res[-1]; pv = g.evaluations.perturbed_variables; pvu = pv if tr is None else tr.variables.from_optimizer(pv)
        off = R if both else 0
        ok &= all(np.allclose(xs[off + r*P + p], pvu[r, p]) for r in range(R) for p in range(P))
        ok &= all(g.evaluations.perturbed_objectives[r, p, 0] == o[off + r*P + p, 0] for r in range(R) for p in range(P))
        if nc: ok &= all(g.evaluations.perturbed_constraints[r, p, 0] == c[off + r*P + p, 0] for r in range(R) for p in range(P))
    # no mutation of evaluator's object/arrays
    for (xs, ctx, o, c, er, ids) in calls:
        ok &= np.array_equal(er.objectives, o) and (c is None or np.array_equal(er.constraints, c))
    # activity: inactive only if configured weight zero
    if ctx.active is not None: ok &= all((w[r] == 0) for r in range(R) if not ctx.active[r])
    # evaluation_info aliasing: results share memory with evaluator's info arrays?
    alias = any(np.shares_memory(v, er.evaluation_info["id"]) for r_ in res for v in r_.evaluations.evaluation_info.values())
    if not ok: bad += 1; print("MISMATCH", kind, R, P, nb, usetr, file=sys.stderr)
print("C06 runs", tot, "bad", bad, "evaluation_info aliases evaluator memory (last case):", alias)
