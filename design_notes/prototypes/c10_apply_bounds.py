import numpy as np, warnings, sys
warnings.simplefilter("ignore")
from fractions import Fraction as Fr
from ropt.ensemble_evaluator._gradient import _apply_bounds, MIRROR_REPEAT
from ropt.enums import BoundaryType
rng = np.random.default_rng(3)
NONE, TRUNC, MIRROR = 1, 2, 3
def model(t, y, lb, ub):           # lb/ub: float or +-inf ; exact on dyadics
    if t == NONE: return y
    v = y
    if t == MIRROR:
        if y < lb:
            for _ in range(MIRROR_REPEAT):
                if v < lb: v = 2*lb - v
                if v > ub: v = 2*ub - v
        elif y > ub:
            for _ in range(MIRROR_REPEAT):
                if v > ub: v = 2*ub - v
                if v < lb: v = 2*lb - v
    return min(max(v, lb), ub)
bad = tot = 0
for it in range(200000):
    lbf = rng.random() < .8; ubf = rng.random() < .8
    lb = rng.integers(-64, 64)/16 if lbf else -np.inf
    ub = (lb if lbf else rng.integers(-64, 64)/16) + rng.integers(0, 64)/16 if ubf else np.inf
    t = rng.integers(1, 4)
    w = (ub - lb) if (lbf and ubf) else 4.0
    y = (lb if lbf else ub if ubf else 0.0) + rng.integers(-40*16, 40*16)/16 * max(w, 1/16) * rng.choice([1, 1/8, 1/64])
    got = _apply_bounds(np.array([y]), np.array([lb]), np.array([ub]), np.array([t], dtype=np.ubyte))[0]
    exp = model(t, y, lb, ub); tot += 1
    if got != exp: 
        bad += 1
        if bad < 5: print("MISMATCH", t, y, lb, ub, got, exp, file=sys.stderr)
    # properties
    if lb <= y <= ub and got != y: print("INSIDE ALTERED", file=sys.stderr)
    if t != NONE and not (lb <= got <= ub): print("OUTSIDE", file=sys.stderr)
    if t == MIRROR and y < lb and 2*lb - y <= ub and got != 2*lb - y: print("SINGLE REFLECT", file=sys.stderr)
print("C10 cases", tot, "bad", bad)
