import itertools, sys
from ropt.plugins import PluginManager
from ropt.plugins.optimizer.base import OptimizerPlugin
from ropt.exceptions import ConfigError
class P(OptimizerPlugin):
    def __init__(s, tag, methods, disc=True): s.tag = tag; s.m = methods; s.d = disc
    def create(s, *a): pass
    def is_supported(s, method): return method.lower() in s.m
    @property
    def allows_discovery(s): return s.d
stubs = {"A": ({"a"}, True), "B": ({"a", "b"}, True), "N": ({"b", "slsqp"}, False)}
ops = [("add", n, pr) for n in ("A", "a", "B", "N") for pr in (False, True)] + [("get", m) for m in ("a", "b", "A/a", "b/B", "n/b", "slsqp", "scipy/SLSQP", "zzz", "A/zzz", "external/slsqp")] + [("sup", m) for m in ("a", "b", "n/B", "zzz")]
def model_init(): return [("external", "EXT"), ("scipy", "SCIPY")]
def supports(tag, m):
    m = m.lower()
    if tag == "SCIPY": return m in {"nelder-mead","powell","cg","bfgs","newton-cg","l-bfgs-b","tnc","cobyla","slsqp","differential_evolution","default"}
    if tag == "EXT":
        # external: supported iff a fresh manager supports the method
        return model_get(model_init(), m)[0] == "ok"
    return m in stubs[tag][0]
def disc(tag): return tag not in ("EXT",) and (tag == "SCIPY" or stubs[tag][1])
def model_get(reg, method):
    parts = method.split("/", 1)
    if len(parts) > 1:
        for n, t in reg:
            if n == parts[0].lower():
                return ("ok", t) if supports(t, parts[1]) else ("ConfigError", None)
        return ("ConfigError", None)
    for n, t in reg:
        if disc(t) and supports(t, parts[0]): return ("ok", t)
    return ("ConfigError", None)
def model_step(reg, op):
    if op[0] == "add":
        name = op[1].lower(); tag = op[1].upper()
        if any(n == name for n, _ in reg): return reg, "ConfigError"
        return ([(name, tag)] + reg if op[2] else reg + [(name, tag)]), "ok"
    if op[0] == "get": r = model_get(reg, op[1]); return reg, r[0] if r[0] != "ok" else r[1]
    r = model_get(reg, op[1]); return reg, r[0] == "ok"
def impl_step(pm, op):
    try:
        if op[0] == "add": pm.add_plugin("optimizer", op[1], P(op[1].upper(), *stubs[op[1].upper()]), prioritize=op[2]); return "ok"
        if op[0] == "get":
            p = pm.get_plugin("optimizer", op[1]); return getattr(p, "tag", "SCIPY" if type(p).__name__.startswith("SciPy") else "EXT")
        return pm.is_supported("optimizer", op[1])
    except ConfigError: return "ConfigError"
tot = bad = 0
for L in (1, 2, 3):
    for seq in itertools.product(ops, repeat=L):
        pm = PluginManager(); other = PluginManager(); reg = model_init(); good = True
        for op in seq:
            a = impl_step(pm, op); reg, b = model_step(reg, op)
            if a != b: good = False
        good &= [n for n, _ in pm.plugins("optimizer")] == [n for n, _ in reg] and [n for n, _ in other.plugins("optimizer")] == ["external", "scipy"]
        tot += 1
        if not good:
            bad += 1
            if bad < 5: print("MISMATCH", seq, file=sys.stderr)
print("C19 sequences", tot, "bad", bad)
