import numpy as np, os, time, sys, tempfile, warnings
warnings.simplefilter("ignore")
from ropt.evaluator import EvaluatorResult
from ropt.plan import BasicOptimizer
def quad(variables, ctx): return EvaluatorResult(objectives=((variables - 0.5)**2).sum(axis=1, keepdims=True))
k = int(sys.argv[1]); raise_at = int(sys.argv[2]) if len(sys.argv) > 2 else -1
pidfile = tempfile.mktemp(); os.environ["VERIF_CHILD_DIE_AFTER"] = str(k); os.environ["VERIF_CHILD_PIDFILE"] = pidfile
n = {"c": 0}
def ev(variables, ctx):
    n["c"] += 1
    if n["c"] == raise_at: raise ValueError("user evaluator failed")
    return quad(variables, ctx)
t0 = time.time()
try: out = BasicOptimizer({"variables": {"initial_values": [0.0, 0.0]}, "optimizer": {"method": "external/slsqp", "max_functions": 3}}, ev).run().exit_code.name
except BaseException as e: out = f"EXC {type(e).__name__}: {str(e)[:60]}"
pid = int(open(pidfile).read()) if os.path.exists(pidfile) else None
alive = False
if pid:
    try: os.kill(pid, 0); alive = True
    except OSError: pass
print(f"k={k} raise_at={raise_at} -> {out} | evals={n['c']} | {time.time()-t0:.1f}s | child alive after: {alive}")
