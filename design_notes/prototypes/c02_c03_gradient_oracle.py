import numpy as np, warnings, sys
warnings.simplefilter("ignore")
from ropt.config.enopt import EnOptConfig
from ropt.ensemble_evaluator import EnsembleEvaluator
from ropt.evaluator import EvaluatorResult
from ropt.exceptions import OptimizationAborted
from ropt.plugins import PluginManager
pm = PluginManager(); rng = np.random.default_rng(1)
def dy(lo, hi, size=None): return rng.integers(lo*16, hi*16+1, size=size)/16.0
bad = tot = triv = 0
for it in range(1500):
    R = rng.integers(1, 6); V = rng.integers(1, 5); P = rng.integers(1, 7); no = rng.integers(1, 3)
    mask = rng.random(V) < .7
    if not mask.any(): mask[0] = True
    usemask = rng.random() < .6
    cfgw = dy(0, 2, R); 
    if cfgw.sum() == 0: cfgw[0] = 1
    oww = dy(0, 2, no)
    if oww.sum() == 0: oww[0] = 1
    oem = rng.integers(0, 2, no)
    A = dy(-3, 3, (R, no, V)); Bc = dy(-3, 3, (R, no))
    x0 = dy(-1, 1, V)
    pmin = int(rng.integers(1, P+1)); rmin = int(rng.integers(0, R+1))
    cfg = {"variables": {"initial_values": x0.tolist()}, "realizations": {"weights": cfgw.tolist(), "realization_min_success": rmin},
           "objectives": {"weights": oww.tolist(), "function_estimators": oem.tolist()}, "function_estimators": [{"method": "mean"}, {"method": "stddev"}],
           "gradient": {"number_of_perturbations": int(P), "perturbation_min_success": pmin, "perturbation_magnitudes": 0.25, "seed": int(it)},
           "samplers": [{"method": ["norm", "uniform", "sobol", "lhs"][rng.integers(4)], "shared": bool(rng.random() < .3)}]}
    if usemask: cfg["variables"]["mask"] = mask.tolist()
    pfail = rng.random((R, P)) < rng.choice([0, .2, .4]); rfail = rng.random(R) < rng.choice([0, .2])
    def ev(variables, ctx):
        n = variables.shape[0]; o = np.empty((n, no))
        for i in range(n):
            r = ctx.realizations[i]; p = -1 if ctx.perturbations is None else ctx.perturbations[i]
            o[i] = A[r] @ variables[i] + Bc[r]
            if (p < 0 and rfail[r]) or (p >= 0 and pfail[r, p]): o[i, rng.integers(no)] = np.nan
        return EvaluatorResult(objectives=o)
    c = EnOptConfig.model_validate(cfg); ee = EnsembleEvaluator(c, None, ev, pm)
    try:
        f, g = ee.calculate(x0, compute_functions=True, compute_gradients=True); exc = None
    except OptimizationAborted: exc = "abort"
    except Exception as e: exc = type(e).__name__
    tot += 1
    free = mask if usemask else np.ones(V, bool)
    gfail = rfail | ((~pfail).sum(axis=1) < pmin)
    if exc is not None:
        # acceptable only for stddev too-few
        okabort = any(oem == 1)
        if not (exc == "abort" and okabort): bad += 1; print("EXC", exc, cfg, file=sys.stderr)
        continue
    if not np.array_equal(g.realizations.failed_realizations, gfail): bad += 1; print("GFLAGS", file=sys.stderr); continue
    if np.count_nonzero(~gfail) < rmin:
        if g.gradients is not None: bad += 1; print("GGATE", file=sys.stderr)
        continue
    if g.gradients is None: bad += 1; print("GGATE2", file=sys.stderr); continue
    w = np.where(gfail, 0, c.realizations.weights)
    if w.sum() == 0: continue
    w = w / w.sum()
    # conditioning per contributing realization
    dX = g.evaluations.perturbed_variables - x0
    okc = True
    for r in range(R):
        if w[r] > 0:
            M = dX[r][~pfail[r]][:, free]
            if M.shape[0] < free.sum(): okc = False; break
            s = np.linalg.svd(M, compute_uv=False)**2
            if len(s) < free.sum() or s[-1] < 0.01 * s.sum(): okc = False; break
    if not okc: triv += 1; continue
    fvals = np.nan_to_num(f.evaluations.objectives)
    exp = np.zeros((no, V))
    for j in range(no):
        if oem[j] == 0: exp[j, free] = (w[:, None] * A[:, j, :])[:, free].sum(axis=0)
        else:
            N = np.count_nonzero(w > 0); 
            if N < 2: exp = None; break
            fj = fvals[:, j]; m = fj @ w; var = N/(N-1) * (((fj-m)**2) @ w); sd = np.sqrt(var)
            if np.isclose(sd, 0): exp[j] = 0
            else: exp[j, free] = (N/(N-1)/sd * ((w*fj) @ A[:, j, :] - m * (w @ A[:, j, :])))[free]
    if exp is None: continue
    if not np.allclose(g.gradients.objectives, exp, rtol=1e-7, atol=1e-9): bad += 1; print("GRAD", g.gradients.objectives, exp, cfg, file=sys.stderr); continue
    if not np.all(g.gradients.objectives[:, ~free] == 0): bad += 1; print("FIXEDNONZERO", file=sys.stderr)
    if not np.allclose(g.gradients.weighted_objective, c.objectives.weights @ exp, rtol=1e-7, atol=1e-9): bad += 1; print("WGRAD", file=sys.stderr)
    if not np.all(g.evaluations.perturbed_variables[..., ~free] == x0[~free]): bad += 1; print("FIXED MOVED", file=sys.stderr)
print("cases", tot, "bad", bad, "trivial(cond)", triv)
