import numpy as np, warnings, sys, itertools
warnings.simplefilter("ignore")
from numpy.random import default_rng
from ropt.config.enopt import EnOptConfig
from ropt.plugins.optimizer.scipy import SciPyOptimizer
import ropt.plugins.optimizer.scipy as sp
from ropt.plugins.sampler.scipy import SciPySampler
from ropt.results import ConstraintInfo
from scipy.stats.qmc import Sobol, Halton, LatinHypercube
rng = np.random.default_rng(7)
def dy(lo, hi, size=None): return rng.integers(lo*8, hi*8+1, size=size)/8.0
# ---------------- C08
kinds = ["eq", "lo", "up", "two", "free"]
def bounds_of(kind):
    a = dy(-2, 2)
    return {"eq": (a, a), "lo": (a, np.inf), "up": (-np.inf, a), "two": (a, a + dy(1, 3)), "free": (-np.inf, np.inf)}[kind]
tot = bad = 0
for method in ("slsqp", "cobyla", "differential_evolution"):
  for nk in itertools.product(kinds, repeat=2):
    for lk in itertools.product(kinds, repeat=2):
        V = 3; mask = rng.random(V) < .7
        if not mask.any(): mask[1] = True
        usemask = rng.random() < .5
        nb = [bounds_of(k) for k in nk]; lbn = [bounds_of(k) for k in lk]
        A = dy(-2, 2, (2, V)).astype(float)
        if usemask and rng.random() < .5: A[0, ~mask] = 0     # make a row survive the mask
        x0 = dy(0, 1, V)
        cfgd = {"variables": {"initial_values": x0.tolist(), "lower_bounds": [0, -np.inf, 0], "upper_bounds": [1, 1, np.inf]},
                "nonlinear_constraints": {"lower_bounds": [b[0] for b in nb], "upper_bounds": [b[1] for b in nb]},
                "linear_constraints": {"coefficients": A.tolist(), "lower_bounds": [b[0] for b in lbn], "upper_bounds": [b[1] for b in lbn]},
                "optimizer": {"method": method, "max_iterations": 5, "options": {"maxiter": 99}}}
        if usemask: cfgd["variables"]["mask"] = mask.tolist()
        cfg = EnOptConfig.model_validate(cfgd)
        Cm = dy(-2, 2, (2, V))   # nonlinear constraints c(x) = Cm @ x_full (affine for the test)
        def cb(variables, *, return_functions, return_gradients):
            full = np.tile(x0, (np.atleast_2d(variables).shape[0], 1)); fm = mask if usemask else np.ones(V, bool)
            full[:, fm] = np.atleast_2d(variables)
            f = np.hstack([(full**2).sum(axis=1, keepdims=True), full @ Cm.T]); f = f[0] if variables.ndim == 1 else f
            g = np.vstack([2*full[0][fm], Cm[:, fm]]) if return_gradients else np.array([])
            return (f if return_functions else np.array([])), g
        cap = {}
        sp.minimize = lambda **kw: cap.update(kw); sp.differential_evolution = lambda **kw: cap.update(kw)
        try:
            opt = SciPyOptimizer(cfg, cb); opt.start(x0.copy())
        except NotImplementedError as e:
            # rejected: fine only if the method's table lacks support
            tot += 1; continue
        tot += 1; fm = mask if usemask else np.ones(V, bool)
        keep = np.all(A[:, ~fm] == 0, axis=1)
        for trial in range(4):
            xf = dy(-2, 2, int(fm.sum())); full = x0.copy(); full[fm] = xf
            cvals = Cm @ full; lvals = A @ full
            conf_ok = all(b[0] <= c <= b[1] for b, c in zip(nb, cvals)) and all(b[0] <= l <= b[1] for b, l, k in zip(lbn, lvals, keep) if k)
            if method == "differential_evolution":
                ok = True
                for con in cap["constraints"]:
                    if hasattr(con, "A"): v = con.A @ xf; ok &= bool(np.all((con.lb <= v) & (v <= con.ub)))
                    else: v = con.fun(xf); ok &= bool(np.all((con.lb <= v) & (v <= con.ub)))
            else:
                ok = True
                for con in cap["constraints"]:
                    v = float(np.ravel(con["fun"](xf))[0]); ok &= (v == 0) if con["type"] == "eq" else (v >= 0)
                    if "jac" in con:
                        # jacobian must be derivative of value: finite difference exact for affine
                        e = np.zeros(len(xf)); e[0] = 1.0
                        d = float(np.ravel(con["fun"](xf + e))[0]) - v
                        if not np.isclose(con["jac"](xf)[0], d): bad += 1; print("JAC SIGN", file=sys.stderr)
                        con["fun"](xf)  # restore cache point
            if ok != conf_ok: bad += 1; print("FEASIBILITY MISMATCH", method, nk, lk, usemask, ok, conf_ok, file=sys.stderr); break
        b = cap.get("bounds")
        if b is None or not (np.array_equal(b.lb, cfg.variables.lower_bounds[fm]) and np.array_equal(b.ub, cfg.variables.upper_bounds[fm])): bad += 1; print("BOUNDS", file=sys.stderr)
        o = cap.get("options") if method != "differential_evolution" else cap
        if o.get("maxiter") != 5: bad += 1; print("MAXITER", o, file=sys.stderr)
print("C08 constructions", tot, "bad", bad)
# ---------------- C13
tot = bad = 0
for it in range(3000):
    V = rng.integers(1, 4); lb = np.where(rng.random(V) < .4, -np.inf, dy(-2, 0, V)); ub = np.where(rng.random(V) < .4, np.inf, dy(0, 2, V)); x = dy(-4, 4, V)
    cfg = EnOptConfig.model_validate({"variables": {"initial_values": [0.0]*V, "lower_bounds": lb.tolist(), "upper_bounds": ub.tolist()}})
    ci = ConstraintInfo.create(cfg, x, None); tot += 1
    if not (np.isfinite(lb).any() or np.isfinite(ub).any()):
        if ci is not None: bad += 1
        continue
    viol = np.maximum(np.maximum(lb - x, x - ub), 0)
    if ci is None or not (np.array_equal(ci.bound_lower, x - lb) and np.array_equal(ci.bound_upper, x - ub) and np.array_equal(ci.bound_violation, viol)): bad += 1; print("C13", lb, ub, x, ci, file=sys.stderr)
print("C13 cases", tot, "bad", bad)
# ---------------- C17 QMC vs identically seeded engine, 3 consecutive calls
tot = bad = 0
for it in range(300):
    R = rng.integers(1, 4); P = rng.integers(1, 6); V = rng.integers(1, 5); shared = bool(rng.random() < .5); m = ["sobol", "halton", "lhs"][rng.integers(3)]
    mask = rng.random(V) < .7
    if not mask.any(): mask[0] = True
    cfg = EnOptConfig.model_validate({"variables": {"initial_values": [0.0]*V}, "realizations": {"weights": [1]*R}, "gradient": {"number_of_perturbations": int(P)}, "samplers": [{"method": m, "shared": shared}]})
    seed = int(it); s = SciPySampler(cfg, 0, mask, default_rng(seed)); D = int(mask.sum())
    eng = {"sobol": Sobol, "halton": Halton, "lhs": LatinHypercube}[m](D, seed=default_rng(seed))
    for call in range(3):
        out = s.generate_samples(); n = (1 if shared else R) * P; pts = eng.random(n); tot += 1
        exp = np.zeros((R, P, V)); blk = (2*pts - 1).reshape((1 if shared else R), P, D)
        exp[..., mask] = np.repeat(blk, R, axis=0) if shared else blk
        if out.shape != (R, P, V) or not np.allclose(out, exp, atol=1e-15, rtol=0): bad += 1; print("C17", m, R, P, V, shared, call, file=sys.stderr); break
print("C17 qmc calls", tot, "bad", bad)
