import numpy as np, itertools, warnings, sys
warnings.simplefilter("ignore")
from ropt.config.enopt import EnOptConfig
from ropt.plugins.optimizer.scipy import SciPyOptimizer, _NO_GRADIENT
import ropt.plugins.optimizer.scipy as sp

# oracle ensemble values (pretend evaluator): F(x) = [obj, c0, c1], G(x) rows
def F(x): return np.array([ (x**2).sum(), x[0] + 10*x[1], 3*x[0] - x[1] ])
def G(x): return np.vstack([2*x, [1.0, 10.0], [3.0, -1.0]])
pool = [np.array([1.0, 2.0]), np.array([3.0, 4.0]), np.array([-1.0, 0.5])]
bad = tot = 0
for method in ("slsqp", "l-bfgs-b", "cobyla", "nelder-mead"):
  for ncons in (0, 2):
    if ncons and method in ("l-bfgs-b", "nelder-mead"): continue
    for spec in (False, True):
      for split in (False, True):
        cfgd = {"variables": {"initial_values": [0.0, 0.0]}, "optimizer": {"method": method, "speculative": spec, "split_evaluations": split}}
        if ncons: cfgd["nonlinear_constraints"] = {"lower_bounds": [1.0, -np.inf], "upper_bounds": [np.inf, 2.0]}   # rows: c0-1>=0 ; -(c1-2)>=0
        cfg = EnOptConfig.model_validate(cfgd)
        ops = ["obj"] + ([] if method in _NO_GRADIENT else ["grad"]) + ([f"con{k}" for k in range(ncons)]) + ([f"jac{k}" for k in range(ncons)] if method != "cobyla" else [])
        for L in (1, 2, 3):
          for seq in itertools.product(itertools.product(ops, range(3)), repeat=L):
            calls = []
            def cb(variables, *, return_functions, return_gradients):
                calls.append((tuple(variables), return_functions, return_gradients))
                f = F(variables)[:1+ncons] if return_functions else np.array([])
                g = G(variables)[:1+ncons] if return_gradients else np.array([])
                return f, g
            captured = {}
            sp.minimize = lambda **kw: captured.update(kw)
            opt = SciPyOptimizer(cfg, cb); opt.start(np.zeros(2))
            fun, jac, cons = captured["fun"], captured["jac"], captured["constraints"]
            # model
            cx = None; cf = cg = False; mcalls = []; ok = True
            for (op, pi) in seq:
                x = pool[pi]
                if op == "obj": got = fun(x); exp = F(x)[0]; need_f, need_g = True, False
                elif op == "grad": got = jac(x); exp = G(x)[0]; need_f, need_g = False, True
                elif op.startswith("con"): k = int(op[3]); got = cons[k]["fun"](x); exp = (F(x)[1]-1.0) if k == 0 else -(F(x)[2]-2.0); need_f, need_g = True, False
                else: k = int(op[3]); got = cons[k]["jac"](x); exp = G(x)[1] if k == 0 else -G(x)[2]; need_f, need_g = False, True
                if cx != pi: cx, cf, cg = pi, False, False
                if method in _NO_GRADIENT: need_g = False
                cmpf = need_f and not cf; cmpg = need_g and not cg
                if cmpf or cmpg:
                    s = spec and method not in _NO_GRADIENT
                    cmpf = cmpf or s; cmpg = cmpg or s
                    if cmpf and cmpg and split: mcalls += [(tuple(x), True, False), (tuple(x), False, True)]
                    else: mcalls.append((tuple(x), cmpf, cmpg))
                    cf = cf or cmpf; cg = cg or cmpg
                if not np.allclose(np.ravel(got), np.ravel(exp)): ok = False
            tot += 1
            if not ok or calls != mcalls:
                bad += 1
                if bad < 6: print("MISMATCH", method, ncons, spec, split, seq, "vals ok", ok, "\n impl", calls, "\n model", mcalls, file=sys.stderr)
print("sequences", tot, "bad", bad)
